/*
 * pdlsim.c — LD_PRELOAD seam S1 of ENV-SIM (see DESIGN.md §3.2).
 *
 * Interposes the libc entry points through which a process of this sandbox's
 * Rust std meets the outside world, and lets one plan (one PRNG seed) decide
 * what they return:
 *   getrandom            -> bytes of the plan's hash stream  (decides every RandomState)
 *   clock_gettime & co   -> simulated clock
 *   getpid               -> plan value
 *   read/pread on "source" fds  -> short reads, EINTR, one hard error
 *   write/writev on "sink" fds  -> short writes, EINTR, one hard error, or a crash (_exit)
 *   constructor          -> heap / mmap layout shift
 * Every intercepted call is appended to an event log with the raw syscall; logging
 * never draws from the PRNG.
 *
 * The plan is a text file "key=value\n..." named by $PDLSIM_PLAN; the variable is
 * removed from the environment in the constructor so the program under test cannot
 * see it. Without $PDLSIM_PLAN the shim is inert (all calls pass through) except
 * for the in-process control entry points used by the tier L driver.
 */
#define _GNU_SOURCE
#include <dlfcn.h>
#include <errno.h>
#include <fcntl.h>
#include <stdarg.h>
#include <stdint.h>
#include <stdlib.h>
#include <string.h>
#include <sys/mman.h>
#include <sys/syscall.h>
#include <sys/time.h>
#include <sys/types.h>
#include <sys/uio.h>
#include <sys/utsname.h>
#include <time.h>
#include <unistd.h>

/* ---------- PRNG: SplitMix64 seeding + xoshiro256** (same as sim/src/prng.rs) ---------- */
typedef struct { uint64_t s[4]; } rng_t;
static uint64_t splitmix(uint64_t *x) {
    uint64_t z = (*x += 0x9E3779B97F4A7C15ULL);
    z = (z ^ (z >> 30)) * 0xBF58476D1CE4E5B9ULL;
    z = (z ^ (z >> 27)) * 0x94D049BB133111EBULL;
    return z ^ (z >> 31);
}
static void rng_seed(rng_t *r, uint64_t seed) {
    uint64_t x = seed;
    for (int i = 0; i < 4; i++) r->s[i] = splitmix(&x);
}
static inline uint64_t rotl(uint64_t x, int k) { return (x << k) | (x >> (64 - k)); }
static uint64_t rng_next(rng_t *r) {
    uint64_t *s = r->s;
    uint64_t result = rotl(s[1] * 5, 7) * 9, t = s[1] << 17;
    s[2] ^= s[0]; s[3] ^= s[1]; s[1] ^= s[2]; s[0] ^= s[3]; s[2] ^= t; s[3] = rotl(s[3], 45);
    return result;
}

/* ---------- plan ---------- */
static int      g_active;            /* plan loaded */
static int      g_hash_on = 0;       /* intercept getrandom */
static rng_t    g_hash_rng;          /* hash stream */
static rng_t    g_io_rng;            /* short/EINTR decisions */
static int      g_clock_on = 0;
static int64_t  g_clock_base = 0;    /* seconds */
static int64_t  g_clock_step_ns = 0; /* advance per read */
static int64_t  g_clock_jump_every = 0; /* every n-th read jumps backwards */
static int64_t  g_clock_reads = 0;
static int      g_clock_mono = 1;    /* also simulate CLOCK_MONOTONIC & co (tier L turns this off: its own scheduler needs real timeouts) */
static int64_t  g_clock_now_ns = 0;
static int      g_pid = 0;
static char     g_host[64] = "";     /* simulated host name (gethostname, uname) */
static int      g_rd_rate = 0, g_wr_rate = 0;     /* per-256 probability of short / EINTR */
static long     g_rd_fail_at = -1, g_wr_fail_at = -1, g_wr_crash_at = -1;
static int      g_rd_errno = EIO, g_wr_errno = ENOSPC;
static long     g_rd_calls = 0, g_wr_calls = 0;
static long     g_soft_left = 4000;  /* budget of retryable faults (short / EINTR) per process */
static int      g_log_fd = -1;
static char     g_src_suffix[64] = ".pdl";
static unsigned char g_fdclass[1024]; /* 0 unknown, 1 source, 2 sink */
static long     g_cnt_getrandom, g_cnt_clock, g_cnt_getpid;
static int      g_tty_mask = -1;     /* -1: real answer; else bit fd (0..2) set = that descriptor is a terminal */

static long raw_write(int fd, const void *b, size_t n) { return syscall(SYS_write, fd, b, n); }

/* the event log is buffered (one syscall per 32 KiB, flushed at exit and before a crash):
   logging must stay cheap and must never perturb the program under test */
static char   g_logbuf[32768];
static size_t g_loglen = 0;
static void log_flush(void) {
    if (g_log_fd >= 0 && g_loglen > 0) raw_write(g_log_fd, g_logbuf, g_loglen);
    g_loglen = 0;
}
static void log_append(const char *b, size_t n) {
    if (g_log_fd < 0) return;
    if (g_loglen + n > sizeof g_logbuf) log_flush();
    if (n > sizeof g_logbuf) { raw_write(g_log_fd, b, n); return; }
    memcpy(g_logbuf + g_loglen, b, n); g_loglen += n;
}

static void logline(const char *kind, long a, long b, long c) {
    if (g_log_fd < 0) return;
    char buf[96]; int n = 0;
    for (const char *p = kind; *p; p++) buf[n++] = *p;
    long v[3] = {a, b, c};
    for (int i = 0; i < 3; i++) {
        buf[n++] = ' ';
        long x = v[i]; char t[24]; int k = 0;
        if (x < 0) { buf[n++] = '-'; x = -x; }
        do { t[k++] = '0' + (x % 10); x /= 10; } while (x);
        while (k) buf[n++] = t[--k];
    }
    buf[n++] = '\n';
    log_append(buf, n);
}

static void logpath(const char *kind, const char *path) {
    if (g_log_fd < 0) return;
    char buf[600]; int n = 0;
    for (const char *p = kind; *p; p++) buf[n++] = *p;
    buf[n++] = ' ';
    for (const char *p = path; *p && n < 590; p++) buf[n++] = (*p == '\n' || *p == ' ') ? '_' : *p;
    buf[n++] = '\n';
    log_append(buf, n);
}

static int64_t parse_i64(const char *s) { return strtoll(s, 0, 10); }

static void load_plan(const char *path) {
    int fd = syscall(SYS_openat, AT_FDCWD, path, O_RDONLY, 0);
    if (fd < 0) return;
    static char buf[4096];
    long n = syscall(SYS_read, fd, buf, sizeof buf - 1);
    syscall(SYS_close, fd);
    if (n <= 0) return;
    buf[n] = 0;
    uint64_t seed = 0;
    long heap_shift = 0, mmap_shift = 0;
    char logpath[512]; logpath[0] = 0;
    char *save = 0;
    for (char *line = strtok_r(buf, "\n", &save); line; line = strtok_r(0, "\n", &save)) {
        char *eq = strchr(line, '=');
        if (!eq) continue;
        *eq = 0; const char *k = line, *v = eq + 1;
        if (!strcmp(k, "seed")) seed = strtoull(v, 0, 10);
        else if (!strcmp(k, "hash")) g_hash_on = atoi(v);
        else if (!strcmp(k, "clock")) g_clock_on = atoi(v);
        else if (!strcmp(k, "clock_base")) g_clock_base = parse_i64(v);
        else if (!strcmp(k, "clock_step_ns")) g_clock_step_ns = parse_i64(v);
        else if (!strcmp(k, "clock_jump_every")) g_clock_jump_every = parse_i64(v);
        else if (!strcmp(k, "pid")) g_pid = atoi(v);
        else if (!strcmp(k, "host")) { strncpy(g_host, v, sizeof g_host - 1); }
        else if (!strcmp(k, "rd_rate")) g_rd_rate = atoi(v);
        else if (!strcmp(k, "wr_rate")) g_wr_rate = atoi(v);
        else if (!strcmp(k, "rd_fail_at")) g_rd_fail_at = atol(v);
        else if (!strcmp(k, "rd_errno")) g_rd_errno = atoi(v);
        else if (!strcmp(k, "wr_fail_at")) g_wr_fail_at = atol(v);
        else if (!strcmp(k, "wr_errno")) g_wr_errno = atoi(v);
        else if (!strcmp(k, "wr_crash_at")) g_wr_crash_at = atol(v);
        else if (!strcmp(k, "heap_shift")) heap_shift = atol(v);
        else if (!strcmp(k, "mmap_shift")) mmap_shift = atol(v);
        else if (!strcmp(k, "soft_budget")) g_soft_left = atol(v);
        else if (!strcmp(k, "tty")) g_tty_mask = atoi(v);
        else if (!strcmp(k, "src_suffix")) { strncpy(g_src_suffix, v, sizeof g_src_suffix - 1); }
        else if (!strcmp(k, "log")) { strncpy(logpath, v, sizeof logpath - 1); }
    }
    rng_seed(&g_hash_rng, seed ^ 0x6861736800000000ULL);
    rng_seed(&g_io_rng, seed ^ 0x696F000000000000ULL);
    g_clock_now_ns = 0;
    if (logpath[0])
        g_log_fd = syscall(SYS_openat, AT_FDCWD, logpath, O_WRONLY | O_CREAT | O_APPEND | O_CLOEXEC, 0644);
    if (g_log_fd >= 0 && g_log_fd < 1024) g_fdclass[g_log_fd] = 0;
    g_fdclass[1] = 2; g_fdclass[2] = 2;
    /* layout shift: leaked on purpose */
    if (heap_shift > 0) { volatile char *p = malloc(heap_shift); if (p) p[0] = 1; }
    if (mmap_shift > 0) {
        void *p = mmap(0, mmap_shift, PROT_READ | PROT_WRITE, MAP_PRIVATE | MAP_ANONYMOUS, -1, 0);
        (void)p;
    }
    g_active = 1;
    logline("plan", (long)(seed & 0x7fffffff), g_hash_on, g_clock_on);
}

__attribute__((constructor)) static void pdlsim_init(void) {
    const char *p = getenv("PDLSIM_PLAN");
    if (p && *p) {
        char path[512]; strncpy(path, p, sizeof path - 1); path[sizeof path - 1] = 0;
        /* PDLSIM_INHERIT=1: keep the variables so that child processes (cargo -> rustc ->
           proc-macro host) run under the same plan; used by tier D only */
        const char *inh = getenv("PDLSIM_INHERIT");
        if (!(inh && *inh == '1')) {
            unsetenv("PDLSIM_PLAN");
            unsetenv("LD_PRELOAD");
        }
        load_plan(path);
    }
}

__attribute__((destructor)) static void pdlsim_fini(void) {
    if (g_active) logline("end", g_rd_calls, g_wr_calls, g_cnt_getrandom);
    log_flush();
}

/* ---------- in-process control (tier L driver finds these with dlsym) ---------- */
/* Restart the hash stream: the next thread to initialise its RandomState keys draws from here. */
void pdlsim_reseed(uint64_t seed) {
    rng_seed(&g_hash_rng, seed ^ 0x6861736800000000ULL);
    g_hash_on = 1;
}
void pdlsim_set_clock(int64_t base_s, int64_t step_ns, int64_t jump_every) {
    g_clock_on = 1; g_clock_base = base_s; g_clock_step_ns = step_ns; g_clock_jump_every = jump_every;
    g_clock_now_ns = 0; g_clock_reads = 0;
}
void pdlsim_clock_off(void) { g_clock_on = 0; }
void pdlsim_clock_mono(int on) { g_clock_mono = on; }
/* real monotonic time for the harness's own wall-clock budget (never visible to the code under test) */
int64_t pdlsim_real_ns(void) {
    struct timespec ts;
    syscall(SYS_clock_gettime, CLOCK_MONOTONIC, &ts);
    return (int64_t)ts.tv_sec * 1000000000LL + ts.tv_nsec;
}
long pdlsim_counter(int which) {
    switch (which) { case 0: return g_cnt_getrandom; case 1: return g_cnt_clock; case 2: return g_cnt_getpid; }
    return -1;
}

/* ---------- getrandom ---------- */
ssize_t getrandom(void *buf, size_t len, unsigned int flags) {
    if (!g_hash_on) return syscall(SYS_getrandom, buf, len, flags);
    unsigned char *p = buf;
    for (size_t i = 0; i < len;) {
        uint64_t v = rng_next(&g_hash_rng);
        for (int k = 0; k < 8 && i < len; k++, i++) p[i] = (unsigned char)(v >> (8 * k));
    }
    g_cnt_getrandom++;
    logline("getrandom", (long)len, 0, 0);
    return (ssize_t)len;
}

/* ---------- clock ---------- */
static void sim_now(struct timespec *ts) {
    g_clock_reads++;
    if (g_clock_jump_every > 0 && g_clock_reads % g_clock_jump_every == 0)
        g_clock_now_ns -= 3600LL * 1000000000LL; /* one hour backwards */
    else
        g_clock_now_ns += g_clock_step_ns;
    int64_t total = g_clock_now_ns;
    int64_t sec = g_clock_base + total / 1000000000LL, ns = total % 1000000000LL;
    if (ns < 0) { ns += 1000000000LL; sec -= 1; }
    ts->tv_sec = sec; ts->tv_nsec = ns;
    g_cnt_clock++;
}
int clock_gettime(clockid_t id, struct timespec *ts) {
    if (!g_clock_on || (!g_clock_mono && id != CLOCK_REALTIME && id != CLOCK_REALTIME_COARSE)) return syscall(SYS_clock_gettime, id, ts);
    sim_now(ts);
    logline("clock", (long)id, (long)ts->tv_sec, 0);
    return 0;
}
int gettimeofday(struct timeval *tv, void *tz) {
    if (!g_clock_on) return syscall(SYS_gettimeofday, tv, tz);
    struct timespec ts; sim_now(&ts);
    if (tv) { tv->tv_sec = ts.tv_sec; tv->tv_usec = ts.tv_nsec / 1000; }
    logline("clock", -1, (long)ts.tv_sec, 0);
    return 0;
}
time_t time(time_t *t) {
    if (!g_clock_on) { time_t r = syscall(SYS_time, 0); if (t) *t = r; return r; }
    struct timespec ts; sim_now(&ts);
    if (t) *t = ts.tv_sec;
    logline("clock", -2, (long)ts.tv_sec, 0);
    return ts.tv_sec;
}

/* ---------- pid ---------- */
pid_t getpid(void) {
    if (!g_active || g_pid <= 0) return syscall(SYS_getpid);
    g_cnt_getpid++;
    logline("getpid", g_pid, 0, 0);
    return g_pid;
}

/* ---------- host name ---------- */
int gethostname(char *name, size_t len) {
    if (!g_active || !g_host[0]) {
        struct utsname u;
        if (syscall(SYS_uname, &u) != 0) return -1;
        strncpy(name, u.nodename, len);
        if (len) name[len - 1] = 0;
        return 0;
    }
    strncpy(name, g_host, len);
    if (len) name[len - 1] = 0;
    logline("hostname", 0, 0, 0);
    return 0;
}
int uname(struct utsname *u) {
    int r = syscall(SYS_uname, u);
    if (r == 0 && g_active && g_host[0]) {
        strncpy(u->nodename, g_host, sizeof u->nodename - 1);
        logline("hostname", 1, 0, 0);
    }
    return r;
}

/* ---------- fd classification ---------- */
/* what kind of object the standard descriptors are attached to (console vs file/pipe) */
int isatty(int fd) {
    if (g_active && g_tty_mask >= 0 && fd >= 0 && fd <= 2) {
        logline("isatty", fd, (g_tty_mask >> fd) & 1, 0);
        if ((g_tty_mask >> fd) & 1) return 1;
        errno = ENOTTY;
        return 0;
    }
    char tio[64];
    return syscall(SYS_ioctl, fd, 0x5401 /* TCGETS */, tio) == 0;
}

static int has_suffix(const char *s, const char *suf) {
    size_t a = strlen(s), b = strlen(suf);
    return a >= b && !strcmp(s + a - b, suf);
}
static void classify(int fd, const char *path, int flags) {
    if (!g_active || fd < 0 || fd >= 1024) return;
    int acc = flags & O_ACCMODE;
    if (acc == O_RDONLY) {
        g_fdclass[fd] = (path && (has_suffix(path, g_src_suffix) || has_suffix(path, ".json"))) ? 1 : 0;
    } else {
        g_fdclass[fd] = 2;
    }
    if (g_fdclass[fd]) logpath(g_fdclass[fd] == 1 ? "open_src" : "open_sink", path ? path : "?");
}
static mode_t va_mode(int flags, va_list ap) {
    if (flags & (O_CREAT | O_TMPFILE)) return va_arg(ap, mode_t);
    return 0;
}
int open(const char *path, int flags, ...) {
    va_list ap; va_start(ap, flags); mode_t m = va_mode(flags, ap); va_end(ap);
    int fd = syscall(SYS_openat, AT_FDCWD, path, flags, m);
    if (fd < 0) { errno = errno; return -1; }
    classify(fd, path, flags); return fd;
}
int open64(const char *path, int flags, ...) {
    va_list ap; va_start(ap, flags); mode_t m = va_mode(flags, ap); va_end(ap);
    int fd = syscall(SYS_openat, AT_FDCWD, path, flags | O_LARGEFILE, m);
    if (fd < 0) return -1;
    classify(fd, path, flags); return fd;
}
int openat(int dirfd, const char *path, int flags, ...) {
    va_list ap; va_start(ap, flags); mode_t m = va_mode(flags, ap); va_end(ap);
    int fd = syscall(SYS_openat, dirfd, path, flags, m);
    if (fd < 0) return -1;
    classify(fd, path, flags); return fd;
}
int openat64(int dirfd, const char *path, int flags, ...) {
    va_list ap; va_start(ap, flags); mode_t m = va_mode(flags, ap); va_end(ap);
    int fd = syscall(SYS_openat, dirfd, path, flags | O_LARGEFILE, m);
    if (fd < 0) return -1;
    classify(fd, path, flags); return fd;
}
int close(int fd) {
    if (fd >= 0 && fd < 1024 && fd > 2) g_fdclass[fd] = 0;
    return syscall(SYS_close, fd);
}

/* ---------- read side ---------- */
static int rd_fault(int fd, size_t *count) {
    /* returns 0: proceed with (possibly shortened) *count; -1: errno set, fail */
    if (!g_active || fd < 0 || fd >= 1024 || g_fdclass[fd] != 1 || *count == 0) return 0;
    long idx = g_rd_calls++;
    if (idx == g_rd_fail_at) { logline("rd_hard", fd, g_rd_errno, idx); errno = g_rd_errno; return -1; }
    if (g_rd_rate > 0 && g_soft_left > 0) {
        uint64_t r = rng_next(&g_io_rng);
        if ((int)(r & 0xff) < g_rd_rate) {
            if (((r >> 8) & 3) == 0) { g_soft_left--; logline("rd_eintr", fd, 0, idx); errno = EINTR; return -1; }
            size_t k = 1 + ((r >> 16) % 7);
            if (k < *count) { g_soft_left--; *count = k; logline("rd_short", fd, (long)k, idx); }
        }
    }
    return 0;
}
ssize_t read(int fd, void *buf, size_t count) {
    if (rd_fault(fd, &count) < 0) return -1;
    return syscall(SYS_read, fd, buf, count);
}
ssize_t pread(int fd, void *buf, size_t count, off_t off) {
    if (rd_fault(fd, &count) < 0) return -1;
    return syscall(SYS_pread64, fd, buf, count, off);
}
ssize_t pread64(int fd, void *buf, size_t count, off_t off) {
    if (rd_fault(fd, &count) < 0) return -1;
    return syscall(SYS_pread64, fd, buf, count, off);
}
ssize_t readv(int fd, const struct iovec *iov, int iovcnt) {
    if (g_active && fd >= 0 && fd < 1024 && g_fdclass[fd] == 1 && iovcnt > 0) {
        size_t c = iov[0].iov_len;
        if (rd_fault(fd, &c) < 0) return -1;
        return syscall(SYS_read, fd, iov[0].iov_base, c);
    }
    return syscall(SYS_readv, fd, iov, iovcnt);
}

/* ---------- write side ---------- */
static int wr_fault(int fd, size_t *count) {
    if (!g_active || fd < 0 || fd >= 1024 || g_fdclass[fd] != 2 || *count == 0) return 0;
    long idx = g_wr_calls++;
    if (idx == g_wr_crash_at) {
        logline("wr_crash", fd, (long)*count, idx);
        logline("end", g_rd_calls, g_wr_calls, g_cnt_getrandom);
        log_flush();
        syscall(SYS_exit_group, 137);
    }
    if (idx == g_wr_fail_at) { logline("wr_hard", fd, g_wr_errno, idx); errno = g_wr_errno; return -1; }
    if (g_wr_rate > 0 && g_soft_left > 0) {
        uint64_t r = rng_next(&g_io_rng);
        if ((int)(r & 0xff) < g_wr_rate) {
            if (((r >> 8) & 3) == 0) { g_soft_left--; logline("wr_eintr", fd, 0, idx); errno = EINTR; return -1; }
            size_t k = 1 + ((r >> 16) % 7);
            if (k < *count) { g_soft_left--; *count = k; logline("wr_short", fd, (long)k, idx); }
        }
    }
    return 0;
}
ssize_t write(int fd, const void *buf, size_t count) {
    if (wr_fault(fd, &count) < 0) return -1;
    return syscall(SYS_write, fd, buf, count);
}
ssize_t writev(int fd, const struct iovec *iov, int iovcnt) {
    if (g_active && fd >= 0 && fd < 1024 && g_fdclass[fd] == 2 && iovcnt > 0) {
        /* find first non-empty segment and treat it as one write */
        int i = 0; while (i < iovcnt && iov[i].iov_len == 0) i++;
        if (i == iovcnt) return 0;
        size_t c = iov[i].iov_len; size_t orig = c;
        if (wr_fault(fd, &c) < 0) return -1;
        if (c < orig || g_wr_rate > 0) return syscall(SYS_write, fd, iov[i].iov_base, c);
    }
    return syscall(SYS_writev, fd, iov, iovcnt);
}
