/*
 * pdlsim_run <wall_s[:cpu_s[:ncpu]]> <shim.so|-> <plan|-> <program> [args...]
 * Launcher of tier P: pins the address-space layout (ADDR_NO_RANDOMIZE, so that with the
 * shim's heap/mmap shift the layout is a function of the plan), arms a wall-clock alarm
 * and a CPU-time limit that survive execve (oracle I4, deliberately outside the simulated world), then execs.
 */
#define _GNU_SOURCE
#include <sched.h>
#include <stdio.h>
#include <stdlib.h>
#include <sys/personality.h>
#include <sys/resource.h>
#include <unistd.h>

int main(int argc, char **argv) {
    if (argc < 5) { fprintf(stderr, "usage: pdlsim_run <timeout_s> <shim.so|-> <plan|-> <program> [args...]\n"); return 2; }
    int t = atoi(argv[1]);
    /* CPU-time limit (immune to machine load): SIGXCPU after cpu_s seconds of CPU */
    const char *colon = argv[1];
    while (*colon && *colon != ':') colon++;
    if (*colon == ':') {
        int cpu = atoi(colon + 1);
        if (cpu > 0) { struct rlimit rl = { (rlim_t)cpu, (rlim_t)cpu + 5 }; setrlimit(RLIMIT_CPU, &rl); }
        /* number of CPUs the program may see (affinity mask = the first ncpu CPUs) */
        const char *c2 = colon + 1;
        while (*c2 && *c2 != ':') c2++;
        if (*c2 == ':') {
            int ncpu = atoi(c2 + 1);
            if (ncpu > 0) {
                cpu_set_t set; CPU_ZERO(&set);
                for (int i = 0; i < ncpu && i < CPU_SETSIZE; i++) CPU_SET(i, &set);
                sched_setaffinity(0, sizeof set, &set);
            }
        }
    }
    personality(ADDR_NO_RANDOMIZE);
    if (argv[2][0] != '-' || argv[2][1]) setenv("LD_PRELOAD", argv[2], 1);
    if (argv[3][0] != '-' || argv[3][1]) setenv("PDLSIM_PLAN", argv[3], 1);
    if (t > 0) alarm((unsigned)t);
    execv(argv[4], argv + 4);
    perror("execv");
    return 127;
}
