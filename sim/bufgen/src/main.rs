//! bufgen — builds the BUF-SIM type registry from the Rust code `pdlc` generated.
//!
//!   bufgen <gen_dir> <module>...      (each <gen_dir>/<module>.rs is pdlc output)
//!
//! Writes <gen_dir>/registry.rs: one `pub mod m_<module>` per file and one `ops::<T>()`
//! entry per `impl Packet for T`, with "spoilers" (field-level value mutators derived from
//! the field's Rust type) that push values out of their encodable range so that `encode`
//! fails part-way. No per-type test logic is generated: the laws live in one generic fn.

use quote::ToTokens;
use std::collections::BTreeMap;
use std::fmt::Write;

fn ty_str(t: &syn::Type) -> String {
    t.to_token_stream().to_string().replace(' ', "")
}

fn is_uint(t: &str) -> bool {
    matches!(t, "u8" | "u16" | "u32" | "u64")
}

/// Spoilers one level down: scalar fields of a struct-typed field, of an optional struct and of
/// the elements of a struct array (`structs` = the struct definitions of the same module).
fn nested_spoilers(path: &str, f: &str, t: &str, structs: &BTreeMap<String, Vec<(String, String)>>) -> Vec<String> {
    let mut v = Vec::new();
    let acc = format!("v.{f}");
    let (inner, kind) = if let Some(x) = t.strip_prefix("Vec<").and_then(|x| x.strip_suffix('>')) {
        (x, 2)
    } else if let Some(x) = t.strip_prefix("Option<").and_then(|x| x.strip_suffix('>')) {
        (x, 1)
    } else {
        (t, 0)
    };
    if let Some(fields) = structs.get(inner) {
        for (g, gt) in fields.iter().filter(|(_, gt)| is_uint(gt)) {
            match kind {
                0 => v.push(format!("|v: &mut {path}| {{ {acc}.{g} = {gt}::MAX; }}")),
                1 => v.push(format!("|v: &mut {path}| {{ if let Some(x) = {acc}.as_mut() {{ x.{g} = {gt}::MAX; }} }}")),
                _ => {
                    v.push(format!("|v: &mut {path}| {{ if let Some(x) = {acc}.last_mut() {{ x.{g} = {gt}::MAX; }} }}"));
                    v.push(format!("|v: &mut {path}| {{ if let Some(x) = {acc}.get_mut(1) {{ x.{g} = {gt}::MAX; }} }}"));
                    v.push(format!("|v: &mut {path}| {{ if let Some(x) = {acc}.first().cloned() {{ {acc}.push(x.clone()); {acc}.push(x); }} if let Some(x) = {acc}.get_mut(1) {{ x.{g} = {gt}::MAX; }} }}"));
                }
            }
        }
    }
    v
}

fn spoilers_for(path: &str, fields: &[(String, String)], structs: &BTreeMap<String, Vec<(String, String)>>) -> Vec<String> {
    let mut v = Vec::new();
    for (f, t) in fields {
        v.extend(nested_spoilers(path, f, t, structs));
        let acc = format!("v.{f}");
        match t.as_str() {
            "u8" | "u16" | "u32" | "u64" => {
                v.push(format!("|v: &mut {path}| {{ {acc} = {t}::MAX; }}"));
                v.push(format!("|v: &mut {path}| {{ {acc} = {acc}.wrapping_add(1); }}"));
            }
            "Option<u8>" | "Option<u16>" | "Option<u32>" | "Option<u64>" => {
                let it = &t[7..t.len() - 1];
                v.push(format!("|v: &mut {path}| {{ {acc} = Some({it}::MAX); }}"));
                v.push(format!("|v: &mut {path}| {{ {acc} = None; }}"));
            }
            "Vec<u8>" => {
                v.push(format!("|v: &mut {path}| {{ {acc}.push(0x5a); }}"));
                v.push(format!("|v: &mut {path}| {{ {acc}.extend(std::iter::repeat(0xa5u8).take(300)); }}"));
                v.push(format!("|v: &mut {path}| {{ {acc}.extend(std::iter::repeat(0x11u8).take(70_000)); }}"));
                v.push(format!("|v: &mut {path}| {{ {acc}.clear(); }}"));
            }
            _ if t.starts_with("Vec<") => {
                v.push(format!("|v: &mut {path}| {{ if let Some(x) = {acc}.first().cloned() {{ {acc}.push(x); }} }}"));
                v.push(format!("|v: &mut {path}| {{ if let Some(x) = {acc}.first().cloned() {{ for _ in 0..300 {{ {acc}.push(x.clone()); }} }} }}"));
                v.push(format!("|v: &mut {path}| {{ {acc}.clear(); }}"));
                v.push(format!("|v: &mut {path}| {{ {acc}.pop(); }}"));
            }
            _ if t.starts_with("Option<") => {
                v.push(format!("|v: &mut {path}| {{ {acc} = None; }}"));
            }
            _ => {}
        }
    }
    v
}

fn main() {
    let args: Vec<String> = std::env::args().collect();
    if args.len() < 3 {
        eprintln!("usage: bufgen <gen_dir> <module>...");
        std::process::exit(2);
    }
    let dir = std::path::PathBuf::from(&args[1]);
    // optional: --variants a,b  => additional registry entries for modules crate::derive_mods::<v><m>
    let mut variants: Vec<String> = Vec::new();
    let mut mods: Vec<String> = Vec::new();
    // optional: --parts N  => modules are distributed over part0.rs .. part{N-1}.rs (one crate each),
    // registry.rs only concatenates their registries
    let mut parts: usize = 0;
    let mut i = 2;
    while i < args.len() {
        if args[i] == "--parts" && i + 1 < args.len() {
            parts = args[i + 1].parse().unwrap_or(0);
            i += 2;
            continue;
        }
        if args[i] == "--variants" && i + 1 < args.len() {
            variants = args[i + 1].split(',').filter(|s| !s.is_empty()).map(String::from).collect();
            i += 2;
        } else {
            mods.push(args[i].clone());
            i += 1;
        }
    }
    let mut out = String::new();
    let mut reg = String::new();
    let mut total = 0usize;
    // (source size, module declaration, registry entries) per module, for --parts
    let mut per_module: Vec<(usize, String, String)> = Vec::new();
    for m in &mods {
        let path = dir.join(format!("{m}.rs"));
        let src = match std::fs::read_to_string(&path) {
            Ok(s) => s,
            Err(e) => {
                eprintln!("bufgen: {}: {e}", path.display());
                std::process::exit(2);
            }
        };
        let file = match syn::parse_file(&src) {
            Ok(f) => f,
            Err(e) => {
                // a description whose generated code does not parse is C10's business: skip the module
                eprintln!("bufgen: warning: {m}: generated code does not parse ({e}); module skipped");
                continue;
            }
        };
        let mut structs: BTreeMap<String, Vec<(String, String)>> = BTreeMap::new();
        let mut derives_default: BTreeMap<String, bool> = BTreeMap::new();
        let mut packet_impls: Vec<String> = Vec::new();
        let mut default_impls: Vec<String> = Vec::new();
        for it in &file.items {
            match it {
                syn::Item::Struct(s) => {
                    let mut fs = Vec::new();
                    if let syn::Fields::Named(n) = &s.fields {
                        for f in &n.named {
                            if matches!(f.vis, syn::Visibility::Public(_)) {
                                fs.push((f.ident.as_ref().unwrap().to_string(), ty_str(&f.ty)));
                            }
                        }
                    }
                    let dd = s.attrs.iter().any(|a| a.path().is_ident("derive") && a.to_token_stream().to_string().contains("Default"));
                    derives_default.insert(s.ident.to_string(), dd);
                    structs.insert(s.ident.to_string(), fs);
                }
                syn::Item::Impl(i) => {
                    if let Some((_, tr, _)) = &i.trait_ {
                        let trn = tr.segments.last().map(|s| s.ident.to_string()).unwrap_or_default();
                        let tyn = ty_str(&i.self_ty);
                        if trn == "Packet" {
                            packet_impls.push(tyn);
                        } else if trn == "Default" {
                            default_impls.push(tyn);
                        }
                    }
                }
                _ => {}
            }
        }
        let decl = format!("#[allow(warnings, unused, clippy::all)]\npub mod m_{m} {{\n    include!(concat!(env!(\"BUFSIM_GEN\"), \"/{m}.rs\"));\n}}\n");
        out.push_str(&decl);
        let reg_start = reg.len();
        for t in packet_impls {
            let fields = match structs.get(&t) {
                Some(f) => f,
                None => continue,
            };
            let has_default = default_impls.contains(&t) || derives_default.get(&t).copied().unwrap_or(false);
            if !has_default {
                eprintln!("bufgen: note: {m}::{t} has no Default; skipped");
                continue;
            }
            let path = format!("m_{m}::{t}");
            let sp = spoilers_for(&path, fields, &structs);
            writeln!(reg, "    v.push(buflaws::laws::ops::<{path}>(\"{m}\", \"{t}\", vec![").unwrap();
            for s in sp {
                writeln!(reg, "        Box::new({s}),").unwrap();
            }
            writeln!(reg, "    ]));").unwrap();
            for var in &variants {
                let vpath = format!("tierd_mods::{var}{m}::{t}");
                let sp = spoilers_for(&vpath, fields, &structs);
                writeln!(reg, "    v.push(buflaws::laws::ops::<{vpath}>(\"{var}{m}\", \"{t}\", vec![").unwrap();
                for s in sp {
                    writeln!(reg, "        Box::new({s}),").unwrap();
                }
                writeln!(reg, "    ]));").unwrap();
            }
            total += 1;
        }
        per_module.push((src.len(), decl, reg[reg_start..].to_string()));
    }
    if parts > 0 {
        // greedy balancing by source size
        per_module.sort_by(|a, b| b.0.cmp(&a.0));
        let mut bins: Vec<(usize, String, String)> = (0..parts).map(|_| (0usize, String::new(), String::new())).collect();
        for (sz, decl, r) in per_module {
            let k = (0..parts).min_by_key(|k| bins[*k].0).unwrap();
            bins[k].0 += sz;
            bins[k].1.push_str(&decl);
            bins[k].2.push_str(&r);
        }
        let mut main = String::from("pub fn registry() -> Vec<buflaws::laws::TypeOps> {\n    let mut v = Vec::new();\n");
        for (k, (_, decls, r)) in bins.iter().enumerate() {
            let text = format!("{decls}pub fn registry_part() -> Vec<buflaws::laws::TypeOps> {{\n    let mut v = Vec::new();\n{r}    v\n}}\n");
            if let Err(e) = std::fs::write(dir.join(format!("part{k}.rs")), text) {
                eprintln!("bufgen: {e}");
                std::process::exit(2);
            }
            main.push_str(&format!("    v.extend(genpart{k}::registry_part());\n"));
        }
        main.push_str("    v\n}\n");
        if let Err(e) = std::fs::write(dir.join("registry.rs"), main) {
            eprintln!("bufgen: {e}");
            std::process::exit(2);
        }
        println!("bufgen: {total} Packet types registered from {} modules in {parts} parts", mods.len());
        return;
    }
    writeln!(out, "pub fn registry() -> Vec<buflaws::laws::TypeOps> {{\n    let mut v = Vec::new();\n{reg}    v\n}}").unwrap();
    if let Err(e) = std::fs::write(dir.join("registry.rs"), out) {
        eprintln!("bufgen: {e}");
        std::process::exit(2);
    }
    println!("bufgen: {total} Packet types registered from {} modules", mods.len());
}
