//! The laws of `pdl_runtime::Packet` (property C18), written once, generically.
//!
//! Encode side, per send of value v with n = v.encoded_len():
//!   E1  encode_to_vec, encode_to_bytes and encode(&mut W) agree on Ok/Err and on the error value
//!   E2  on Ok the bytes appended to W == encode_to_vec() == encode_to_bytes()
//!   E3  whatever W held before the call is bit-for-bit unchanged (on Ok and on Err)
//!   E4  a writer with exactly n bytes of room is neither overrun (panic) nor under-filled on Ok
//! Decode side, per receive on slice s:
//!   D0  decode(s) panics ⇒ decode_mut and decode_full panic too (same outcome; the panic itself is
//!       the required method's business and is not judged)
//!   D1  decode(s)=Ok((p,r)) ⇒ r is a suffix of s by address; decode_mut returns an equal p and
//!       leaves the cursor == r; decode_full(s) is Ok(p) if r is empty, else exactly TrailingBytesError
//!   D2  decode(s)=Err(e) ⇒ decode_mut returns e with the cursor untouched; decode_full returns e
//! A panic inside a REQUIRED method (decode / encode / encoded_len) is not a law failing; it is
//! reported as `RequiredPanic` and the laws are skipped for that call.

use crate::simbuf::SimBuf;
use bytes::{BufMut, BytesMut};
use pdl_runtime::{DecodeError, Packet};
use std::fmt::Debug;
use std::panic::{catch_unwind, AssertUnwindSafe};

#[derive(Clone, Debug, PartialEq, Eq, Hash)]
pub struct Prov {
    /// None = T::default(); Some(b) = the value decode(b) returns
    pub bytes: Option<Vec<u8>>,
    /// spoiler indices applied in order
    pub spoilers: Vec<usize>,
}

#[derive(Clone, Debug, PartialEq, Eq, Hash)]
pub enum Cap {
    Exact,
    Slack(usize),
    Ample,
    /// a growable sink: `remaining_mut()` reports usize::MAX and does not shrink as bytes are written
    Unbounded,
}

#[derive(Clone, Debug, PartialEq, Eq, Hash)]
pub enum WriterKind {
    Vec,
    BytesMut,
    SliceExact,
    SliceSlack(usize),
    LimitVec,
    /// Chain<&mut [u8], Vec<u8>>: the first `split` bytes of the encoding land in the slice
    ChainSliceVec(usize),
    /// Chain<Chain<&mut Vec, &mut Vec>, &mut Vec>: three growable buffers, whose saturating
    /// `remaining_mut()` stays at usize::MAX whatever is written
    Chain3Vec,
    Sim { chunks: Vec<usize>, cap: Cap },
}

impl WriterKind {
    pub fn tag(&self) -> &'static str {
        match self {
            WriterKind::Vec => "vec",
            WriterKind::BytesMut => "bytesmut",
            WriterKind::SliceExact => "slice_exact",
            WriterKind::SliceSlack(_) => "slice_slack",
            WriterKind::LimitVec => "limit_vec",
            WriterKind::ChainSliceVec(_) => "chain_slice_vec",
            WriterKind::Chain3Vec => "chain3_growable",
            WriterKind::Sim { cap: Cap::Unbounded, .. } => "simbuf_unbounded",
            WriterKind::Sim { cap: Cap::Exact, .. } => "simbuf_exact",
            WriterKind::Sim { cap: Cap::Slack(_), .. } => "simbuf_slack",
            WriterKind::Sim { cap: Cap::Ample, .. } => "simbuf_ample",
        }
    }
}

#[derive(Clone, Debug)]
pub struct LawViolation {
    pub law: &'static str,
    pub detail: String,
}

#[derive(Debug)]
pub enum SendOutcome {
    /// bytes appended to the caller's writer; `ok` = encode returned Ok
    Sent { appended: Vec<u8>, ok: bool, err: Option<String>, encoded_len: usize, boundaries_crossed: usize, len_mismatch: bool },
    NoValue,
    RequiredPanic(String),
    Violation(LawViolation),
}

#[derive(Debug)]
pub enum RecvOutcome {
    Decoded { consumed: usize, remainder_empty: bool, suffix_ok: bool, debug: Option<String> },
    Failed(String),
    RequiredPanic(String),
    Violation(LawViolation),
}

/// When set, decode outcomes carry the `Debug` rendering of the decoded value (tier D
/// compares behaviour of two generated modules event by event).
pub static RECORD_DEBUG: std::sync::atomic::AtomicBool = std::sync::atomic::AtomicBool::new(false);

pub type Spoiler<T> = Box<dyn Fn(&mut T) + Send + Sync>;

pub struct TypeOps {
    pub module: &'static str,
    pub name: &'static str,
    pub n_spoilers: usize,
    pub send: Box<dyn Fn(&Prov, &WriterKind, &[u8]) -> SendOutcome + Send + Sync>,
    pub recv: Box<dyn Fn(&[u8]) -> RecvOutcome + Send + Sync>,
    /// can the provenance be turned into a value (decodes / spoilers do not panic)?
    pub has_value: Box<dyn Fn(&Prov) -> bool + Send + Sync>,
}

fn panic_msg(e: Box<dyn std::any::Any + Send>) -> String {
    if let Some(s) = e.downcast_ref::<&str>() {
        s.to_string()
    } else if let Some(s) = e.downcast_ref::<String>() {
        s.clone()
    } else {
        "panic".into()
    }
}

fn make<T: Packet + Default>(prov: &Prov, spoilers: &[Spoiler<T>]) -> Option<T> {
    let r = catch_unwind(AssertUnwindSafe(|| {
        let mut v = match &prov.bytes {
            None => T::default(),
            Some(b) => T::decode(b).ok()?.0,
        };
        for k in &prov.spoilers {
            if let Some(s) = spoilers.get(*k) {
                s(&mut v);
            }
        }
        Some(v)
    }));
    r.ok().flatten()
}

fn viol(law: &'static str, detail: String) -> SendOutcome {
    SendOutcome::Violation(LawViolation { law, detail })
}

fn hexs(b: &[u8]) -> String {
    let shown = &b[..b.len().min(48)];
    let mut s = simcore::hex(shown);
    if b.len() > 48 {
        s.push_str(&format!("…(+{} bytes)", b.len() - 48));
    }
    s
}

/// Every simulated writer is handed to `encode` behind `&mut dyn BufMut` (bytes implements
/// `BufMut for &mut T where T: ?Sized`), so that each generated `encode` is instantiated once
/// instead of once per writer type: the calls reach the same writer methods through the vtable.
fn enc<T: Packet>(v: &T, mut w: &mut dyn BufMut) -> Result<(), pdl_runtime::EncodeError> {
    v.encode(&mut w)
}

fn send_laws<T: Packet + Debug + Clone + PartialEq + Default>(v: &T, kind: &WriterKind, prior: &[u8]) -> SendOutcome {
    // required methods first: a panic here is not a law of the derived methods failing
    let n = match catch_unwind(AssertUnwindSafe(|| v.encoded_len())) {
        Ok(n) => n,
        Err(e) => return SendOutcome::RequiredPanic(format!("encoded_len: {}", panic_msg(e))),
    };
    let r_req = match catch_unwind(AssertUnwindSafe(|| {
        let mut plain: Vec<u8> = Vec::new();
        v.encode(&mut plain).map(|_| plain)
    })) {
        Ok(r) => r,
        Err(e) => return SendOutcome::RequiredPanic(format!("encode: {}", panic_msg(e))),
    };
    // provided methods
    let r_vec = match catch_unwind(AssertUnwindSafe(|| v.encode_to_vec())) {
        Ok(r) => r,
        Err(e) => return viol("E1", format!("encode_to_vec panicked ({}) although encode(&mut Vec::new()) returned {:?}", panic_msg(e), r_req.as_ref().map(|b| b.len()))),
    };
    let r_bytes = match catch_unwind(AssertUnwindSafe(|| v.encode_to_bytes())) {
        Ok(r) => r,
        Err(e) => return viol("E1", format!("encode_to_bytes panicked ({}) although encode_to_vec returned {:?}", panic_msg(e), r_vec.as_ref().map(|b| b.len()))),
    };
    match (&r_req, &r_vec, &r_bytes) {
        (Ok(a), Ok(b), Ok(c)) => {
            if a != b {
                return viol("E2", format!("encode(&mut Vec::new()) wrote {} but encode_to_vec returned {}", hexs(a), hexs(b)));
            }
            if b.as_slice() != c.as_ref() {
                return viol("E2", format!("encode_to_vec returned {} but encode_to_bytes returned {}", hexs(b), hexs(c)));
            }
        }
        (Err(a), Err(b), Err(c)) => {
            if a != b || b != c {
                return viol("E1", format!("error values differ: encode {:?}, encode_to_vec {:?}, encode_to_bytes {:?}", a, b, c));
            }
        }
        _ => {
            return viol(
                "E1",
                format!(
                    "Ok/Err disagreement: encode {:?}, encode_to_vec {:?}, encode_to_bytes {:?}",
                    r_req.as_ref().map(|b| b.len()),
                    r_vec.as_ref().map(|b| b.len()),
                    r_bytes.as_ref().map(|b| b.len())
                ),
            );
        }
    }
    let len_mismatch = matches!(&r_vec, Ok(b) if b.len() != n);

    // the caller's writer
    struct Done {
        res: Result<(), pdl_runtime::EncodeError>,
        prior_after: Vec<u8>,
        appended: Vec<u8>,
        room: Option<usize>,
        crossed: usize,
        protocol_error: Option<String>,
    }
    let run = || -> Done {
        match kind {
            WriterKind::Vec => {
                let mut w: Vec<u8> = prior.to_vec();
                let res = enc(v, &mut w);
                Done { res, prior_after: w[..prior.len().min(w.len())].to_vec(), appended: w.get(prior.len()..).unwrap_or(&[]).to_vec(), room: None, crossed: 0, protocol_error: None }
            }
            WriterKind::BytesMut => {
                let mut w = BytesMut::from(prior);
                let res = enc(v, &mut w);
                Done { res, prior_after: w[..prior.len().min(w.len())].to_vec(), appended: w.get(prior.len()..).unwrap_or(&[]).to_vec(), room: None, crossed: 0, protocol_error: None }
            }
            WriterKind::SliceExact | WriterKind::SliceSlack(_) => {
                let slack = if let WriterKind::SliceSlack(k) = kind { *k } else { 0 };
                let mut store: Vec<u8> = prior.to_vec();
                store.resize(prior.len() + n + slack, crate::simbuf::POISON);
                let (head, tail) = store.split_at_mut(prior.len());
                let mut w: &mut [u8] = tail;
                let before = w.len();
                let res = enc(v, &mut w);
                let written = before - w.len();
                let head = head.to_vec();
                Done { res, prior_after: head, appended: store[prior.len()..prior.len() + written].to_vec(), room: Some(n + slack), crossed: 0, protocol_error: None }
            }
            WriterKind::LimitVec => {
                let mut store: Vec<u8> = prior.to_vec();
                let res = {
                    let mut w = (&mut store).limit(n);
                    enc(v, &mut w)
                };
                Done { res, prior_after: store[..prior.len().min(store.len())].to_vec(), appended: store.get(prior.len()..).unwrap_or(&[]).to_vec(), room: Some(n), crossed: 0, protocol_error: None }
            }
            WriterKind::ChainSliceVec(split) => {
                let split = (*split).min(n);
                let mut first: Vec<u8> = prior.to_vec();
                first.resize(prior.len() + split, crate::simbuf::POISON);
                let mut second: Vec<u8> = Vec::new();
                let (res, used_first) = {
                    let (_, tail) = first.split_at_mut(prior.len());
                    let mut a: &mut [u8] = tail;
                    let before = a.len();
                    let res = {
                        let mut w = (&mut a).chain_mut(&mut second);
                        enc(v, &mut w)
                    };
                    (res, before - a.len())
                };
                let mut appended = first[prior.len()..prior.len() + used_first].to_vec();
                appended.extend_from_slice(&second);
                Done { res, prior_after: first[..prior.len()].to_vec(), appended, room: None, crossed: if used_first > 0 && !second.is_empty() { 1 } else { 0 }, protocol_error: None }
            }
            WriterKind::Chain3Vec => {
                let mut a: Vec<u8> = prior.to_vec();
                let mut b: Vec<u8> = Vec::new();
                let mut c: Vec<u8> = Vec::new();
                let res = {
                    let mut w = (&mut a).chain_mut(&mut b).chain_mut(&mut c);
                    enc(v, &mut w)
                };
                let mut appended = a.get(prior.len()..).unwrap_or(&[]).to_vec();
                appended.extend_from_slice(&b);
                appended.extend_from_slice(&c);
                Done { res, prior_after: a[..prior.len().min(a.len())].to_vec(), appended, room: None, crossed: 0, protocol_error: None }
            }
            WriterKind::Sim { chunks, cap } => {
                let room = match cap {
                    Cap::Exact => n,
                    Cap::Slack(k) => n + k,
                    Cap::Ample => n + 4096 + n / 2,
                    Cap::Unbounded => 2 * n + 70_000,
                };
                let mut w = SimBuf::new(prior, room, chunks);
                if matches!(cap, Cap::Unbounded) {
                    w.report_unbounded = true;
                }
                let res = enc(v, &mut w);
                Done {
                    res,
                    prior_after: w.prior().to_vec(),
                    appended: w.written().to_vec(),
                    room: if matches!(cap, Cap::Exact) { Some(n) } else { None },
                    crossed: w.boundaries_crossed(),
                    protocol_error: w.protocol_error.clone(),
                }
            }
        }
    };
    let d = match catch_unwind(AssertUnwindSafe(run)) {
        Ok(d) => d,
        Err(e) => {
            return viol(
                "E4",
                format!(
                    "encode into a caller buffer of kind {} (room for encoded_len()={} bytes{}) panicked: {}; encode_to_vec returned {:?}",
                    kind.tag(),
                    n,
                    match kind {
                        WriterKind::SliceSlack(k) => format!(" + {k} slack"),
                        WriterKind::Sim { cap: Cap::Slack(k), .. } => format!(" + {k} slack"),
                        WriterKind::Sim { cap: Cap::Ample | Cap::Unbounded, .. } | WriterKind::Vec | WriterKind::BytesMut | WriterKind::ChainSliceVec(_) | WriterKind::Chain3Vec => " and more".into(),
                        _ => String::new(),
                    },
                    panic_msg(e),
                    r_vec.as_ref().map(|b| b.len())
                ),
            )
        }
    };
    if let Some(pe) = d.protocol_error {
        return viol("E3", format!("BufMut protocol breach on writer {}: {pe}", kind.tag()));
    }
    if d.prior_after != prior {
        let at = simcore::first_diff(prior, &d.prior_after);
        return viol("E3", format!("the {} bytes the caller's {} held before encode were modified (first difference at offset {:?}; encode returned {:?})", prior.len(), kind.tag(), at, d.res));
    }
    match (&d.res, &r_vec) {
        (Ok(()), Ok(b)) => {
            if &d.appended != b {
                return viol("E2", format!("bytes appended to the caller's {} ({}) differ from encode_to_vec ({})", kind.tag(), hexs(&d.appended), hexs(b)));
            }
            if let Some(room) = d.room {
                if matches!(kind, WriterKind::SliceExact | WriterKind::LimitVec | WriterKind::Sim { cap: Cap::Exact, .. }) && d.appended.len() != room {
                    return viol("E4", format!("writer {} had room for exactly encoded_len()={room} bytes but encode filled {}", kind.tag(), d.appended.len()));
                }
            }
        }
        (Err(a), Err(b)) => {
            if a != b {
                return viol("E1", format!("encode into {} failed with {:?} but encode_to_vec with {:?}", kind.tag(), a, b));
            }
        }
        (a, b) => {
            return viol("E1", format!("encode into the caller's {} returned {:?} but encode_to_vec returned {:?}", kind.tag(), a, b.as_ref().map(|x| x.len())));
        }
    }
    SendOutcome::Sent { appended: d.appended, ok: d.res.is_ok(), err: d.res.err().map(|e| format!("{e:?}")), encoded_len: n, boundaries_crossed: d.crossed, len_mismatch }
}

fn rviol(law: &'static str, detail: String) -> RecvOutcome {
    RecvOutcome::Violation(LawViolation { law, detail })
}

/// Offset of `cur` inside `s` for messages; address-independent ("outside" when it does not point into s).
fn offset_in(s: &[u8], cur: &[u8]) -> String {
    let a = s.as_ptr() as usize;
    let c = cur.as_ptr() as usize;
    if c >= a && c <= a + s.len() {
        format!("{}", c - a)
    } else {
        "outside the input".to_string()
    }
}

fn is_suffix(s: &[u8], r: &[u8]) -> bool {
    let s_end = s.as_ptr() as usize + s.len();
    let r_end = r.as_ptr() as usize + r.len();
    r.len() <= s.len() && r_end == s_end
}

fn recv_laws<T: Packet + Debug + Clone + PartialEq + Default>(s: &[u8], depth: u32) -> RecvOutcome {
    let r = match catch_unwind(AssertUnwindSafe(|| T::decode(s))) {
        Ok(r) => r,
        Err(e) => {
            // not judged — but the provided methods are still exercised on this input, as a caller
            // would: whatever they do around a panicking decode becomes part of the thread's history
            // the provided methods are defined in terms of decode: on an input on which decode panics they
            // do the same (D0); turning the panic into a value would make decode_full(b) != decode(b)
            let mut cur: &[u8] = s;
            let m = catch_unwind(AssertUnwindSafe(|| T::decode_mut(&mut cur).map(|_| ()).map_err(|e| format!("{e:?}"))));
            let f = catch_unwind(AssertUnwindSafe(|| T::decode_full(s).map(|_| ()).map_err(|e| format!("{e:?}"))));
            if let Ok(r) = &m {
                return rviol("D0", format!("decode panics ({}) but decode_mut returned {:?}; input {}", panic_msg(e), r, hexs(s)));
            }
            if let Ok(r) = &f {
                return rviol("D0", format!("decode panics ({}) but decode_full returned {:?}; input {}", panic_msg(e), r, hexs(s)));
            }
            return RecvOutcome::RequiredPanic(format!("decode: {}", panic_msg(e)));
        }
    };
    // decode_mut on the caller's cursor
    let mut cur: &[u8] = s;
    let m = match catch_unwind(AssertUnwindSafe(|| T::decode_mut(&mut cur))) {
        Ok(m) => m,
        Err(e) => return rviol("D1", format!("decode_mut panicked ({}) although decode returned {:?} on input {}", panic_msg(e), r.as_ref().map(|(_, r)| r.len()), hexs(s))),
    };
    let f = match catch_unwind(AssertUnwindSafe(|| T::decode_full(s))) {
        Ok(f) => f,
        Err(e) => return rviol("D1", format!("decode_full panicked ({}) although decode returned {:?} on input {}", panic_msg(e), r.as_ref().map(|(_, r)| r.len()), hexs(s))),
    };
    match r {
        Ok((p, rem)) => {
            // (that decode's own remainder is a suffix of the input is a clause of C01, not of C18:
            // it is reported as a by-product flag, never judged here)
            let suffix_ok = is_suffix(s, rem);
            match &m {
                Ok(p2) => {
                    if *p2 != p {
                        return rviol("D1", format!("decode_mut returned {:?} but decode returned {:?} on input {}", p2, p, hexs(s)));
                    }
                    if cur.as_ptr() != rem.as_ptr() || cur.len() != rem.len() {
                        return rviol(
                            "D1",
                            format!("decode_mut left the cursor with {} bytes (offset {}) but decode's remainder has {} bytes (offset {}); input {}", cur.len(), offset_in(s, cur), rem.len(), offset_in(s, rem), hexs(s)),
                        );
                    }
                }
                Err(e) => return rviol("D1", format!("decode succeeded but decode_mut returned {:?}; input {}", e, hexs(s))),
            }
            match (&f, rem.is_empty()) {
                (Ok(p3), true) => {
                    if *p3 != p {
                        return rviol("D1", format!("decode_full returned {:?} but decode returned {:?}; input {}", p3, p, hexs(s)));
                    }
                }
                (Err(DecodeError::TrailingBytesError), false) => {}
                (other, empty) => {
                    return rviol(
                        "D1",
                        format!("decode leaves {} trailing bytes (remainder empty: {empty}) but decode_full returned {:?}; input {}", rem.len(), other.as_ref().map(|_| "Ok(..)"), hexs(s)),
                    );
                }
            }
            let consumed = s.len().saturating_sub(rem.len());
            // the same laws on exactly the consumed prefix (the empty-remainder branch of decode_full)
            if depth == 0 && consumed < s.len() {
                match recv_laws::<T>(&s[..consumed], 1) {
                    RecvOutcome::Violation(v) => return RecvOutcome::Violation(v),
                    _ => {}
                }
            }
            RecvOutcome::Decoded { consumed, remainder_empty: rem.is_empty(), suffix_ok, debug: if RECORD_DEBUG.load(std::sync::atomic::Ordering::Relaxed) { Some(format!("{:?}", p)) } else { None } }
        }
        Err(e) => {
            match &m {
                Err(e2) if *e2 == e => {}
                other => return rviol("D2", format!("decode failed with {:?} but decode_mut returned {:?}; input {}", e, other.as_ref().map(|_| "Ok(..)"), hexs(s))),
            }
            if cur.as_ptr() != s.as_ptr() || cur.len() != s.len() {
                return rviol(
                    "D2",
                    format!("decode_mut failed ({:?}) but changed the caller's slice: {} bytes at offset {} instead of the original {} bytes; input {}", e, cur.len(), offset_in(s, cur), s.len(), hexs(s)),
                );
            }
            match &f {
                Err(e3) if *e3 == e => {}
                other => return rviol("D2", format!("decode failed with {:?} but decode_full returned {:?}; input {}", e, other.as_ref().map(|_| "Ok(..)"), hexs(s))),
            }
            RecvOutcome::Failed(format!("{e:?}"))
        }
    }
}

pub fn ops<T>(module: &'static str, name: &'static str, spoilers: Vec<Spoiler<T>>) -> TypeOps
where
    T: Packet + Debug + Clone + PartialEq + Default + 'static,
{
    let sp = std::sync::Arc::new(spoilers);
    let sp2 = sp.clone();
    TypeOps {
        module,
        name,
        n_spoilers: sp.len(),
        send: Box::new(move |prov, kind, prior| match make::<T>(prov, &sp) {
            Some(v) => send_laws::<T>(&v, kind, prior),
            None => SendOutcome::NoValue,
        }),
        recv: Box::new(|s| recv_laws::<T>(s, 0)),
        has_value: Box::new(move |prov| make::<T>(prov, &sp2).is_some()),
    }
}
