//! The generic part of BUF-SIM that generated-code crates link against: the Packet-trait
//! laws (laws.rs) and the simulator-owned writer (simbuf.rs).
pub mod laws;
pub mod simbuf;
