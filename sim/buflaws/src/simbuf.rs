//! SimBuf — the simulator-owned `BufMut`: a fixed arena that hands out chunks of
//! PRNG-chosen length (short writes), records every `advance_mut`, and has a capacity
//! chosen by the run (exactly what `encoded_len()` promised, promised + slack, ample).
//! It starts with caller content (`prior`) that must survive every encode untouched.

use bytes::buf::UninitSlice;
use bytes::BufMut;

pub const POISON: u8 = 0xAA;

pub struct SimBuf {
    arena: Vec<u8>,
    prior: usize,
    pos: usize,
    /// chunk length schedule, cycled; entries >= 1
    chunks: Vec<usize>,
    ci: usize,
    left_in_chunk: usize,
    pub advances: Vec<usize>,
    pub chunk_calls: usize,
    pub protocol_error: Option<String>,
    /// behave like a growable sink: `remaining_mut()` is usize::MAX (the arena is far larger than
    /// anything a correct encoder writes; running out of it is reported, not looped on)
    pub report_unbounded: bool,
}

impl SimBuf {
    pub fn new(prior: &[u8], capacity_after_prior: usize, chunks: &[usize]) -> SimBuf {
        let mut arena = Vec::with_capacity(prior.len() + capacity_after_prior);
        arena.extend_from_slice(prior);
        arena.resize(prior.len() + capacity_after_prior, POISON);
        let chunks: Vec<usize> = if chunks.is_empty() { vec![usize::MAX / 2] } else { chunks.iter().map(|c| (*c).max(1)).collect() };
        let first = chunks[0];
        SimBuf { arena, prior: prior.len(), pos: prior.len(), chunks, ci: 0, left_in_chunk: first, advances: Vec::new(), chunk_calls: 0, protocol_error: None, report_unbounded: false }
    }
    pub fn prior(&self) -> &[u8] {
        &self.arena[..self.prior]
    }
    pub fn written(&self) -> &[u8] {
        &self.arena[self.prior..self.pos]
    }
    /// number of chunk boundaries that fell strictly inside the written range
    pub fn boundaries_crossed(&self) -> usize {
        let mut n = 0;
        let mut acc = 0usize;
        let total = self.pos - self.prior;
        let mut i = 0;
        while acc < total {
            acc = acc.saturating_add(self.chunks[i % self.chunks.len()]);
            if acc < total {
                n += 1;
            }
            i += 1;
        }
        n
    }
}

unsafe impl BufMut for SimBuf {
    fn remaining_mut(&self) -> usize {
        if self.report_unbounded {
            if self.arena.len() == self.pos {
                panic!("simulated growable sink exhausted: the encoder wrote more than twice encoded_len() + 70000 bytes");
            }
            return usize::MAX;
        }
        self.arena.len() - self.pos
    }

    unsafe fn advance_mut(&mut self, cnt: usize) {
        let avail = self.left_in_chunk.min(self.arena.len() - self.pos);
        if cnt > avail {
            // the caller advanced past the chunk it was given: a BufMut protocol breach by the encoder
            if self.protocol_error.is_none() {
                self.protocol_error = Some(format!("advance_mut({cnt}) beyond the current chunk of {avail} bytes"));
            }
            let cnt = cnt.min(self.arena.len() - self.pos);
            self.pos += cnt;
            self.left_in_chunk = 0;
        } else {
            self.pos += cnt;
            self.left_in_chunk -= cnt;
        }
        self.advances.push(cnt);
        if self.left_in_chunk == 0 {
            self.ci += 1;
            self.left_in_chunk = self.chunks[self.ci % self.chunks.len()];
        }
    }

    fn chunk_mut(&mut self) -> &mut UninitSlice {
        self.chunk_calls += 1;
        let n = self.left_in_chunk.min(self.arena.len() - self.pos);
        let pos = self.pos;
        UninitSlice::new(&mut self.arena[pos..pos + n])
    }
}
