//! bufsim — BUF-SIM, the deterministic simulator deciding property C18 (DESIGN.md §4).
//!
//!   bufsim check --tier quick|thorough
//!   bufsim replay <file>
//!
//! One PRNG stream per run (from VERIF_SEED and the run index) draws the module, the
//! types, the enabled writer and fault kinds and then an interleaving of send / move /
//! fault / recv / recheck events over a TX stream, an RX buffer and a caller cursor.
//! The laws of laws.rs are evaluated at every send and receive. A violation is
//! minimised and written as an explicit, replayable event list.

mod laws;
mod sim;
mod simbuf;
#[allow(warnings, unused)]
mod gen {
    include!(concat!(env!("BUFSIM_GEN"), "/registry.rs"));
}

use laws::{Prov, TypeOps};
use serde_json::{json, Value};
use sim::{event_from_json, run_events, run_one, Event, Stats, Violation, World};
use simcore::{unhex, verif_seed, write_json};
use std::collections::{BTreeMap, BTreeSet};
use std::path::{Path, PathBuf};
use std::sync::Arc;
use std::time::Instant;

// ---------------------------------------------------------------- known findings

struct Known {
    findings: Vec<Value>,
}

impl Known {
    fn load(verif: &Path) -> Known {
        let v: Value = std::fs::read_to_string(verif.join("known_findings.json")).ok().and_then(|s| serde_json::from_str(&s).ok()).unwrap_or(json!({}));
        Known { findings: v["findings"].as_array().cloned().unwrap_or_default().into_iter().filter(|f| f["property"] == "C18").collect() }
    }
    fn matches(&self, v: &Violation) -> Option<&Value> {
        self.findings.iter().find(|f| {
            let m = match f["match"].as_object() {
                Some(m) => m,
                None => return false,
            };
            m.iter().all(|(k, x)| match k.as_str() {
                "law" => x.as_str() == Some(v.law),
                "type" => x.as_str() == Some(v.ty.as_str()),
                "module" => x.as_str() == Some(v.module.as_str()),
                "detail_contains" => v.detail.contains(x.as_str().unwrap_or("\u{0}")),
                _ => false,
            })
        })
    }
}

// ---------------------------------------------------------------- main

fn env_u64(name: &str, d: u64) -> u64 {
    std::env::var(name).ok().and_then(|s| s.parse().ok()).unwrap_or(d)
}

fn world(verif: &Path) -> World {
    World::new(gen::registry(), verif)
}

fn check(tier: &str) -> i32 {
    let t0 = Instant::now();
    let seed = verif_seed();
    let verif = PathBuf::from(std::env::var("VERIF_DIR").unwrap_or_else(|_| "/verif".into()));
    let out_dir = PathBuf::from(std::env::var("VERIF_OUT").unwrap_or_else(|_| verif.to_string_lossy().into_owned()));
    println!("C18 BUF-SIM: VERIF_SEED={seed} tier={tier}");
    std::panic::set_hook(Box::new(|_| {}));
    let thorough = tier == "thorough";
    let runs = env_u64("VERIF_B_RUNS", if thorough { 4_000_000 } else { 60_000 });
    let budget = env_u64("VERIF_BUDGET_S", if thorough { 3000 } else { 200 });
    let nworkers = env_u64("VERIF_WORKERS", std::thread::available_parallelism().map(|n| n.get() as u64).unwrap_or(8)) as usize;
    let w = Arc::new(world(&verif));
    if w.reg.is_empty() {
        eprintln!("bufsim: harness error: empty type registry");
        return 2;
    }
    let known = Known::load(&verif);

    let run_range = move |w: Arc<World>, from: u64, to: u64, stride: u64, deadline: Instant| -> (Stats, Vec<(u64, Violation, Value)>, Vec<(u64, u64)>, u64, u64, Vec<Value>) {
        let mut stats = Stats::default();
        let mut viols = Vec::new();
        let mut digests = Vec::new();
        let mut n = 0u64;
        let mut events = 0u64;
        let mut samples = Vec::new();
        let mut i = from;
        while i < to {
            if n % 256 == 0 && Instant::now() > deadline {
                break;
            }
            let r = run_one(&w, seed, i);
            stats.merge(&r.stats);
            digests.push((i, r.digest));
            events += r.events as u64;
            n += 1;
            if let Some(s) = r.sample {
                if samples.len() < 2 {
                    samples.push(s);
                }
            }
            if let Some((v, doc)) = r.violation {
                if viols.len() < 20 {
                    viols.push((i, v, doc));
                }
            }
            i += stride;
        }
        (stats, viols, digests, n, events, samples)
    };

    let deadline = Instant::now() + std::time::Duration::from_secs(budget);
    let mut handles = Vec::new();
    for k in 0..nworkers as u64 {
        let w = w.clone();
        handles.push(std::thread::Builder::new().stack_size(64 << 20).spawn(move || run_range(w, k, runs, nworkers as u64, deadline)).unwrap());
    }
    let mut stats = Stats::default();
    let mut viols: Vec<(u64, Violation, Value)> = Vec::new();
    let mut digests: BTreeMap<u64, u64> = BTreeMap::new();
    let mut done = 0u64;
    let mut events = 0u64;
    let mut samples = Vec::new();
    for h in handles {
        match h.join() {
            Ok((s, v, d, n, e, sm)) => {
                stats.merge(&s);
                viols.extend(v);
                digests.extend(d);
                done += n;
                events += e;
                samples.extend(sm);
            }
            Err(_) => {
                eprintln!("bufsim: harness error: worker thread panicked");
                return 2;
            }
        }
    }
    // determinism self-check: the first runs again, on one thread
    let sc = env_u64("VERIF_SELFCHECK_RUNS", if thorough { 20_000 } else { 2_000 }).min(runs);
    {
        let (_, _, d2, _, _, _) = run_range(w.clone(), 0, sc, 1, Instant::now() + std::time::Duration::from_secs(600));
        for (i, dg) in d2 {
            if let Some(a) = digests.get(&i) {
                if *a != dg {
                    eprintln!("bufsim: harness error: run {i} is not deterministic ({a:x} vs {dg:x})");
                    return 2;
                }
            }
        }
    }
    viols.sort_by_key(|v| v.0);
    let mut reported: Vec<(Violation, PathBuf)> = Vec::new();
    let mut known_hits: BTreeSet<String> = BTreeSet::new();
    let mut seen_classes: BTreeSet<(String, String)> = BTreeSet::new();
    for (run, v, doc) in &viols {
        if let Some(f) = known.matches(v) {
            known_hits.insert(f["what"].as_str().unwrap_or("known finding").to_string());
            continue;
        }
        if !seen_classes.insert((v.law.to_string(), v.ty.clone())) && reported.len() >= 3 {
            continue;
        }
        let path = out_dir.join("replays").join(format!("C18-{seed}-{run}.json"));
        let mut doc = doc.clone();
        doc["replay"] = json!(format!("bin/check C18 --replay {}", path.display()));
        if write_json(&path, &doc).is_err() {
            eprintln!("bufsim: cannot write {}", path.display());
            return 2;
        }
        reported.push((v.clone(), path));
        if reported.len() >= 12 {
            break;
        }
    }
    let wall = t0.elapsed().as_secs_f64();
    if samples.is_empty() {
        samples.push(json!({"note": "no sample selected"}));
    }
    let mut top_panics: Vec<(&String, &u64)> = stats.required_panics.iter().collect();
    top_panics.sort_by(|a, b| b.1.cmp(a.1));
    let modules: Vec<&&str> = w.by_module.keys().collect();
    let evidence = json!({
        "property_id": "C18", "tier": if thorough { "thorough" } else { "quick" }, "seed": seed, "level": "exploration",
        "wall_s": wall, "violations": reported.len(),
        "coverage": {
            "evaluations": done,
            "distinct_nontrivial": stats.distinct.len(),
            "rule": "one evaluation = one simulated run of up to 64 events (send into a simulated caller buffer / move / fault on bytes in flight / recv on a caller cursor / recheck) over 1–6 generated Packet types of one description. distinct_nontrivial counts distinct (type, writer kind, chunk schedule, length) sends in which at least one chunk boundary fell inside the packet, plus distinct (type, input length, consumed length) receives and distinct (type, input length) failed receives.",
            "samples": samples,
            "runs_requested": runs, "events": events,
            "runs_per_hour": if wall > 0.0 { (done as f64 / wall * 3600.0) as u64 } else { 0 },
            "counters": stats.c,
            "types_registered": w.reg.len(), "types_exercised": stats.types_touched.len(),
            "modules": modules,
            "required_method_panics_not_judged": top_panics.iter().take(12).map(|(k, v)| json!({"where": k, "count": v})).collect::<Vec<_>>(),
            "determinism_selfcheck_runs": sc,
            "simulated_time": "none: the code under test has no timers; event order is the only notion of time",
            "real_components": ["pdl-runtime trait Packet (provided methods)", "encode/encoded_len/decode of every packet, struct and sized custom-field type pdlc generates for the codec corpus (rebuilt from /repo)", "bytes crate writers Vec, BytesMut, &mut [u8], Limit, Chain"],
            "stubbed_components": ["SimBuf (simulator-owned BufMut: chunk schedule, capacity, prior content)", "TX stream, RX buffer, caller cursor, value pool", "faults on bytes in flight (truncate, flip, dup, drop, insert)"],
            "known_findings_seen": known_hits.iter().collect::<Vec<_>>(),
        },
        "assumptions": [
            "values are obtained by decoding (test vectors, arbitrary bytes, earlier traffic), from Default, and by field-level spoilers derived from the generated struct definitions; types whose values cannot be reached this way are exercised on the decode side only",
            "sampling, not enumeration: a clean batch is evidence, not proof"
        ],
    });
    if write_json(&out_dir.join("evidence/C18.json"), &evidence).is_err() {
        eprintln!("bufsim: cannot write evidence");
        return 2;
    }
    for k in &known_hits {
        println!("KNOWN-FINDING: property=C18 {k}");
    }
    println!("C18: {done} runs, {events} events, {} types exercised of {}, distinct non-trivial {}, {:.1}s; violations {}", stats.types_touched.len(), w.reg.len(), stats.distinct.len(), wall, reported.len());
    if reported.is_empty() {
        0
    } else {
        for (v, path) in &reported {
            println!("  B {} [{}::{}]: {}", v.law, v.module, v.ty, v.detail);
            println!("VIOLATION property=C18 replay={}", path.display());
        }
        1
    }
}

fn replay(file: &Path) -> i32 {
    std::panic::set_hook(Box::new(|_| {}));
    let verif = PathBuf::from(std::env::var("VERIF_DIR").unwrap_or_else(|_| "/verif".into()));
    let v: Value = match std::fs::read_to_string(file).ok().and_then(|s| serde_json::from_str(&s).ok()) {
        Some(v) => v,
        None => {
            eprintln!("bufsim: cannot read {}", file.display());
            return 2;
        }
    };
    let w = world(&verif);
    let module = v["module"].as_str().unwrap_or("");
    let mut types: Vec<&TypeOps> = Vec::new();
    for t in v["types"].as_array().cloned().unwrap_or_default() {
        match w.reg.iter().find(|o| o.module == module && Some(o.name) == t.as_str()) {
            Some(o) => types.push(o),
            None => {
                println!("type {module}::{t} no longer exists in the generated code: not reproduced");
                return 0;
            }
        }
    }
    let seeds: Vec<Vec<Prov>> = v["seed_values"]
        .as_array()
        .cloned()
        .unwrap_or_default()
        .iter()
        .map(|ps| {
            ps.as_array()
                .cloned()
                .unwrap_or_default()
                .iter()
                .map(|p| Prov {
                    bytes: p["decoded_from"].as_str().and_then(unhex),
                    spoilers: p["spoilers"].as_array().map(|a| a.iter().filter_map(|x| x.as_u64().map(|y| y as usize)).collect()).unwrap_or_default(),
                })
                .collect()
        })
        .collect();
    let events: Vec<Event> = match v["events"].as_array().map(|a| a.iter().map(|e| event_from_json(e, &types)).collect::<Option<Vec<_>>>()) {
        Some(Some(e)) => e,
        _ => {
            eprintln!("bufsim: malformed replay file");
            return 2;
        }
    };
    println!("VERIF_SEED={} (recorded) run={} module={} events={}", v["seed"], v["run"], module, events.len());
    let (viol, _) = run_events(types, seeds, &events);
    match viol {
        Some(x) => {
            println!("reproduced: law {} [{}::{}] at event {} — {}", x.law, x.module, x.ty, x.at_event, x.detail);
            println!("VIOLATION property=C18 replay={}", file.display());
            1
        }
        None => {
            println!("not reproduced on the current tree (recorded: {} — {})", v["violation"]["law"].as_str().unwrap_or(""), v["violation"]["detail"].as_str().unwrap_or(""));
            0
        }
    }
}

fn main() {
    let args: Vec<String> = std::env::args().collect();
    let code = match args.get(1).map(|s| s.as_str()) {
        Some("check") => {
            let tier = args.iter().position(|a| a == "--tier").and_then(|i| args.get(i + 1)).cloned().unwrap_or_else(|| std::env::var("VERIF_TIER").unwrap_or_else(|_| "quick".into()));
            check(&tier)
        }
        Some("replay") if args.len() >= 3 => replay(Path::new(&args[2])),
        _ => {
            eprintln!("usage: bufsim check --tier quick|thorough | replay <file>");
            2
        }
    };
    std::process::exit(code);
}
