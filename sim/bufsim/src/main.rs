//! bufsim — BUF-SIM, the deterministic simulator deciding property C18 (DESIGN.md §4).
//!
//!   bufsim check --tier quick|thorough
//!   bufsim replay <file>
//!
//! One PRNG stream per run (from VERIF_SEED and the run index) draws the module, the
//! types, the enabled writer and fault kinds and then an interleaving of send / move /
//! fault / recv / recheck events over a TX stream, an RX buffer and a caller cursor.
//! The laws of laws.rs are evaluated at every send and receive. A violation is
//! minimised and written as an explicit, replayable event list.

mod sim;
use buflaws::laws;
#[allow(warnings, unused)]
mod gen {
    include!(concat!(env!("BUFSIM_GEN"), "/registry.rs"));
}

use laws::{Prov, TypeOps};
use serde_json::{json, Value};
use sim::{event_from_json, run_events, run_one, Event, Stats, Violation, World};
use simcore::{unhex, verif_seed, write_json};
use std::collections::{BTreeMap, BTreeSet};
use std::path::{Path, PathBuf};
use std::sync::Arc;
use std::time::Instant;

// ---------------------------------------------------------------- known findings

struct Known {
    findings: Vec<Value>,
}

impl Known {
    fn load(verif: &Path) -> Known {
        let v: Value = std::fs::read_to_string(verif.join("known_findings.json")).ok().and_then(|s| serde_json::from_str(&s).ok()).unwrap_or(json!({}));
        Known { findings: v["findings"].as_array().cloned().unwrap_or_default().into_iter().filter(|f| f["property"] == "C18").collect() }
    }
    fn matches(&self, v: &Violation) -> Option<&Value> {
        self.findings.iter().find(|f| {
            let m = match f["match"].as_object() {
                Some(m) => m,
                None => return false,
            };
            m.iter().all(|(k, x)| match k.as_str() {
                "law" => x.as_str() == Some(v.law),
                "type" => x.as_str() == Some(v.ty.as_str()),
                "module" => x.as_str() == Some(v.module.as_str()),
                "detail_contains" => v.detail.contains(x.as_str().unwrap_or("\u{0}")),
                _ => false,
            })
        })
    }
}

// ---------------------------------------------------------------- main

fn env_u64(name: &str, d: u64) -> u64 {
    std::env::var(name).ok().and_then(|s| s.parse().ok()).unwrap_or(d)
}

fn world(verif: &Path) -> World {
    World::new(gen::registry(), verif)
}

pub struct ShardResult {
    stats: Stats,
    viols: Vec<(u64, Violation, Value)>,
    digests: Vec<(u64, u64)>,
    n: u64,
    events: u64,
    samples: Vec<Value>,
}

fn law_static(s: &str) -> &'static str {
    for l in ["E1", "E2", "E3", "E4", "D0", "D1", "D2", "D3"] {
        if l == s {
            return l;
        }
    }
    "??"
}

impl ShardResult {
    fn to_json(&self) -> Value {
        json!({
            "counters": self.stats.c,
            "distinct": self.stats.distinct.iter().map(|d| d.to_string()).collect::<Vec<_>>(),
            "required_panics": self.stats.required_panics,
            "types_touched": self.stats.types_touched,
            "viols": self.viols.iter().map(|(run, v, doc)| json!({"run": run, "law": v.law, "ty": v.ty, "module": v.module, "detail": v.detail, "at_event": v.at_event, "doc": doc})).collect::<Vec<_>>(),
            "digests": self.digests.iter().map(|(i, d)| json!([i, d.to_string()])).collect::<Vec<_>>(),
            "n": self.n, "events": self.events, "samples": self.samples,
        })
    }
    fn read(path: &Path) -> Option<ShardResult> {
        let v: Value = serde_json::from_str(&std::fs::read_to_string(path).ok()?).ok()?;
        let mut stats = Stats::default();
        for (k, x) in v["counters"].as_object()? {
            stats.c.insert(k.clone(), x.as_u64()?);
        }
        for d in v["distinct"].as_array()? {
            stats.distinct.insert(d.as_str()?.parse().ok()?);
        }
        for (k, x) in v["required_panics"].as_object()? {
            stats.required_panics.insert(k.clone(), x.as_u64()?);
        }
        for t in v["types_touched"].as_array()? {
            stats.types_touched.insert(t.as_str()?.to_string());
        }
        let mut viols = Vec::new();
        for x in v["viols"].as_array()? {
            viols.push((
                x["run"].as_u64()?,
                Violation { law: law_static(x["law"].as_str()?), ty: x["ty"].as_str()?.to_string(), module: x["module"].as_str()?.to_string(), detail: x["detail"].as_str()?.to_string(), at_event: x["at_event"].as_u64()? as usize },
                x["doc"].clone(),
            ));
        }
        let mut digests = Vec::new();
        for d in v["digests"].as_array()? {
            digests.push((d[0].as_u64()?, d[1].as_str()?.parse().ok()?));
        }
        Some(ShardResult { stats, viols, digests, n: v["n"].as_u64()?, events: v["events"].as_u64()?, samples: v["samples"].as_array()?.clone() })
    }
}

/// Size of a block of consecutive run indices (the unit of work of a shard) and the share of
/// blocks that are *marathons*: all runs of the block execute one after another on ONE fresh
/// thread, so that thread-local state of the code under test accumulates over ~9 000 events
/// (a counter that leaks, an arena that grows); in the other blocks every run gets a fresh
/// thread. What a run's thread has seen before is a function of (seed, run index) either way.
const BLOCK: u64 = 256;
fn is_marathon(seed: u64, block: u64) -> bool {
    simcore::stable_hash(&(seed, "marathon", block)) % 4 == 0
}

/// Blocks from, from+stride, … (block b = runs b*BLOCK .. (b+1)*BLOCK, clipped to `to`).
fn run_range(w: &Arc<World>, seed: u64, from: u64, to: u64, stride: u64, deadline: Instant) -> ShardResult {
    let mut r = ShardResult { stats: Stats::default(), viols: Vec::new(), digests: Vec::new(), n: 0, events: 0, samples: Vec::new() };
    let mut block = from;
    while block * BLOCK < to {
        if Instant::now() > deadline {
            break;
        }
        let (lo, hi) = (block * BLOCK, ((block + 1) * BLOCK).min(to));
        let marathon = is_marathon(seed, block);
        let mut results: Vec<(u64, sim::RunResult)> = Vec::new();
        if marathon {
            let w2 = w.clone();
            match std::thread::Builder::new().stack_size(8 << 20).spawn(move || (lo..hi).map(|i| (i, sim::run_one_opts(&w2, seed, i, false))).collect::<Vec<_>>()).map(|h| h.join()) {
                Ok(Ok(v)) => results = v,
                _ => {
                    eprintln!("bufsim: harness error: marathon block {block} could not be executed");
                    std::process::exit(2);
                }
            }
        } else {
            for i in lo..hi {
                let w2 = w.clone();
                match std::thread::Builder::new().stack_size(8 << 20).spawn(move || run_one(&w2, seed, i)).map(|h| h.join()) {
                    Ok(Ok(x)) => results.push((i, x)),
                    _ => {
                        eprintln!("bufsim: harness error: run {i} could not be executed");
                        std::process::exit(2);
                    }
                }
            }
        }
        for (i, one) in results {
            r.stats.merge(&one.stats);
            if marathon {
                r.stats.bump("runs_inside_marathons");
            }
            r.digests.push((i, one.digest));
            r.events += one.events as u64;
            r.n += 1;
            if let Some(s) = one.sample {
                if r.samples.len() < 2 {
                    r.samples.push(s);
                }
            }
            if let Some((v, mut doc)) = one.violation {
                if marathon {
                    doc["marathon"] = json!({"block": block, "from": lo, "upto": i, "note": "the runs from..=upto are executed one after another on one thread; the violation is judged in the last one"});
                }
                if r.viols.len() < 20 {
                    r.viols.push((i, v, doc));
                }
            }
        }
        block += stride;
    }
    r
}

fn shard(args: &[String]) -> i32 {
    std::panic::set_hook(Box::new(|_| {}));
    let get = |name: &str| args.iter().position(|a| a == name).and_then(|i| args.get(i + 1)).cloned();
    let num = |name: &str, d: u64| get(name).and_then(|s| s.parse().ok()).unwrap_or(d);
    let verif = PathBuf::from(std::env::var("VERIF_DIR").unwrap_or_else(|_| "/verif".into()));
    let w = Arc::new(world(&verif));
    let deadline = Instant::now() + std::time::Duration::from_secs(num("--budget-s", 200));
    let r = run_range(&w, num("--seed", 1), num("--from", 0), num("--to", 0), num("--stride", 1), deadline);
    match get("--out") {
        Some(p) => {
            if std::fs::write(p, r.to_json().to_string()).is_err() {
                return 2;
            }
            0
        }
        None => 2,
    }
}

fn check(tier: &str) -> i32 {
    let t0 = Instant::now();
    let seed = verif_seed();
    let verif = PathBuf::from(std::env::var("VERIF_DIR").unwrap_or_else(|_| "/verif".into()));
    let out_dir = PathBuf::from(std::env::var("VERIF_OUT").unwrap_or_else(|_| verif.to_string_lossy().into_owned()));
    println!("C18 BUF-SIM: VERIF_SEED={seed} tier={tier}");
    std::panic::set_hook(Box::new(|_| {}));
    let thorough = tier == "thorough";
    let runs = env_u64("VERIF_B_RUNS", if thorough { 4_000_000 } else { 60_000 });
    let budget = env_u64("VERIF_BUDGET_S", if thorough { 3000 } else { 200 });
    let nworkers = env_u64("VERIF_WORKERS", std::thread::available_parallelism().map(|n| n.get() as u64).unwrap_or(8)) as usize;
    let w = Arc::new(world(&verif));
    if w.reg.is_empty() {
        eprintln!("bufsim: harness error: empty type registry");
        return 2;
    }
    let known = Known::load(&verif);

    // fan out over worker PROCESSES (one simulation thread each; every run in a fresh thread):
    // thread creation from 16 threads of one address space contends on the kernel's mm lock
    let exe = match std::env::current_exe() {
        Ok(e) => e,
        Err(_) => return 2,
    };
    let shard_dir = PathBuf::from(std::env::var("VERIF_BUILD").unwrap_or_else(|_| verif.join(".build").to_string_lossy().into_owned())).join("scratch").join("bufsim");
    let _ = std::fs::remove_dir_all(&shard_dir);
    if std::fs::create_dir_all(&shard_dir).is_err() {
        return 2;
    }
    let mut children = Vec::new();
    for k in 0..nworkers as u64 {
        let out = shard_dir.join(format!("shard{k}.json"));
        let ch = std::process::Command::new(&exe)
            .args(["shard", "--seed", &seed.to_string(), "--from", &k.to_string(), "--to", &runs.to_string(), "--stride", &nworkers.to_string(), "--budget-s", &budget.to_string(), "--out"])
            .arg(&out)
            .stdin(std::process::Stdio::null())
            .spawn();
        match ch {
            Ok(c) => children.push((out, c)),
            Err(e) => {
                eprintln!("bufsim: harness error: cannot spawn shard: {e}");
                return 2;
            }
        }
    }
    let mut stats = Stats::default();
    let mut viols: Vec<(u64, Violation, Value)> = Vec::new();
    let mut digests: BTreeMap<u64, u64> = BTreeMap::new();
    let mut done = 0u64;
    let mut events = 0u64;
    let mut samples = Vec::new();
    for (out, mut c) in children {
        let ok = c.wait().map(|s| s.success()).unwrap_or(false);
        let sr = if ok { ShardResult::read(&out) } else { None };
        match sr {
            Some(r) => {
                stats.merge(&r.stats);
                viols.extend(r.viols);
                digests.extend(r.digests);
                done += r.n;
                events += r.events;
                samples.extend(r.samples);
            }
            None => {
                eprintln!("bufsim: harness error: shard {} failed", out.display());
                return 2;
            }
        }
    }
    samples.truncate(3);
    if let Ok(path) = std::env::var("VERIF_DUMP_DIGESTS") {
        let mut text = String::new();
        for (i, d) in &digests {
            text.push_str(&format!("B {i} {d:x}\n"));
        }
        let _ = std::fs::write(format!("{path}.B"), text);
    }
    viols.sort_by_key(|v| v.0);
    let mut reported: Vec<(Violation, PathBuf)> = Vec::new();
    let mut known_hits: BTreeSet<String> = BTreeSet::new();
    let mut seen_classes: BTreeSet<(String, String)> = BTreeSet::new();
    for (run, v, doc) in &viols {
        if let Some(f) = known.matches(v) {
            known_hits.insert(f["what"].as_str().unwrap_or("known finding").to_string());
            continue;
        }
        if !seen_classes.insert((v.law.to_string(), v.ty.clone())) && reported.len() >= 3 {
            continue;
        }
        let path = out_dir.join("replays").join(format!("C18-{seed}-{run}.json"));
        let mut doc = doc.clone();
        doc["replay"] = json!(format!("bin/check C18 --replay {}", path.display()));
        if write_json(&path, &doc).is_err() {
            eprintln!("bufsim: cannot write {}", path.display());
            return 2;
        }
        reported.push((v.clone(), path));
        if reported.len() >= 12 {
            break;
        }
    }
    // determinism self-check: the first runs again, on one thread. Violations take precedence:
    // a change that makes results depend on process-global history shows up as violations AND as
    // run-to-run divergence, and must be reported as the former.
    let sc = env_u64("VERIF_SELFCHECK_RUNS", if thorough { 20_000 } else { 2_000 }).min(runs);
    if reported.is_empty() {
        let r2 = run_range(&w, seed, 0, sc, 1, Instant::now() + std::time::Duration::from_secs(600));
        let (v2, d2) = (r2.viols, r2.digests);
        if v2.is_empty() {
            for (i, dg) in d2 {
                if let Some(a) = digests.get(&i) {
                    if *a != dg {
                        eprintln!("bufsim: harness error: run {i} is not deterministic ({a:x} vs {dg:x}) and no law violation explains it");
                        return 2;
                    }
                }
            }
        } else {
            for (run, v, doc) in &v2 {
                if known.matches(v).is_some() {
                    continue;
                }
                let path = out_dir.join("replays").join(format!("C18-{seed}-{run}.json"));
                let mut doc = doc.clone();
                doc["replay"] = json!(format!("bin/check C18 --replay {}", path.display()));
                doc["note"] = json!("found by the single-threaded re-execution only: the violation depends on process-global history across runs");
                let _ = write_json(&path, &doc);
                reported.push((v.clone(), path));
                if reported.len() >= 4 {
                    break;
                }
            }
        }
    }
    // ---- tier S: concurrent callers under shuttle (pdl-runtime and the generated code rebuilt with
    // shuttle's primitives in place of std::sync / thread_local!, see sim/shutsim) ----
    let mut tier_s = json!({"skipped": "the shuttle build is not available"});
    if let Some(exe) = std::env::var("VERIF_SHUTSIM").ok().filter(|p| !p.is_empty() && Path::new(p).exists()) {
        let rounds = env_u64("VERIF_S_ROUNDS", if thorough { 400 } else { 24 });
        let schedules = env_u64("VERIF_S_SCHEDULES", if thorough { 16 } else { 8 });
        let ts = Instant::now();
        match std::process::Command::new(&exe).args(["check", "runtime", &seed.to_string(), &rounds.to_string(), &schedules.to_string()]).env("VERIF_DIR", &verif).stderr(std::process::Stdio::null()).output() {
            Ok(o) => match serde_json::from_slice::<Value>(&o.stdout) {
                Ok(v) => {
                    for x in v["violations"].as_array().cloned().unwrap_or_default() {
                        let viol = Violation {
                            law: law_static(x["law"].as_str().unwrap_or("")),
                            ty: x["type"].as_str().unwrap_or("").to_string(),
                            module: x["module"].as_str().unwrap_or("").to_string(),
                            detail: x["detail"].as_str().unwrap_or("").to_string(),
                            at_event: 0,
                        };
                        if let Some(f) = known.matches(&viol) {
                            known_hits.insert(f["what"].as_str().unwrap_or("known finding").to_string());
                            continue;
                        }
                        if reported.len() < 12 {
                            let path = out_dir.join("replays").join(format!("C18-{seed}-S{}-{}.json", x["round"], x["sched_seed"]));
                            let doc = json!({"property": "C18", "tier": "S", "seed": seed, "run": x["round"], "sched_seed": x["sched_seed"],
                                "violation": {"law": x["law"], "type": x["type"], "detail": x["detail"]},
                                "replay": format!("bin/check C18 --replay {}", path.display())});
                            let _ = write_json(&path, &doc);
                            reported.push((viol, path));
                        }
                    }
                    tier_s = json!({"rounds": v["rounds"], "executions_one_cold_process_each": v["executions"], "events": v["events"], "schedules_per_round": schedules, "wall_s": ts.elapsed().as_secs_f64(),
                        "scenario": "2-3 shuttle threads, each a 40-event BUF-SIM run on types of hand_temporaries / struct_decl_child_structs / pdltests semantic; scheduling points = every sync primitive or thread-local of pdl-runtime and the generated code (none on the unchanged tree)"});
                }
                Err(e) => {
                    eprintln!("bufsim: harness error: tier S output: {e}");
                    return 2;
                }
            },
            Err(e) => {
                eprintln!("bufsim: harness error: tier S: {e}");
                return 2;
            }
        }
    }
    let wall = t0.elapsed().as_secs_f64();
    if samples.is_empty() {
        samples.push(json!({"note": "no sample selected"}));
    }
    let mut top_panics: Vec<(&String, &u64)> = stats.required_panics.iter().collect();
    top_panics.sort_by(|a, b| b.1.cmp(a.1));
    let modules: Vec<&&str> = w.by_module.keys().collect();
    let evidence = json!({
        "property_id": "C18", "tier": if thorough { "thorough" } else { "quick" }, "seed": seed, "level": "exploration",
        "wall_s": wall, "violations": reported.len(),
        "coverage": {
            "evaluations": done,
            "distinct_nontrivial": stats.distinct.len(),
            "rule": "one evaluation = one simulated run of up to 64 events (send into a simulated caller buffer / move / fault on bytes in flight / recv on a caller cursor / recheck) over 1–6 generated Packet types of one description. distinct_nontrivial counts distinct (type, writer kind, chunk schedule, length) sends in which at least one chunk boundary fell inside the packet, plus distinct (type, input length, consumed length) receives and distinct (type, input length) failed receives.",
            "samples": samples,
            "runs_requested": runs, "events": events,
            "runs_per_hour": if wall > 0.0 { (done as f64 / wall * 3600.0) as u64 } else { 0 },
            "counters": stats.c,
            "types_registered": w.reg.len(), "types_exercised": stats.types_touched.len(),
            "modules": modules,
            "required_method_panics_not_judged": top_panics.iter().take(12).map(|(k, v)| json!({"where": k, "count": v})).collect::<Vec<_>>(),
            "determinism_selfcheck_runs": sc,
            "tier_S_shuttle": tier_s,
            "simulated_time": "none: the code under test has no timers; event order is the only notion of time",
            "real_components": ["pdl-runtime trait Packet (provided methods)", "encode/encoded_len/decode of every packet, struct and sized custom-field type pdlc generates for the codec corpus (rebuilt from /repo)", "bytes crate writers Vec, BytesMut, &mut [u8], Limit, Chain"],
            "stubbed_components": ["SimBuf (simulator-owned BufMut: chunk schedule, capacity, prior content)", "TX stream, RX buffer, caller cursor, value pool", "faults on bytes in flight (truncate, flip, dup, drop, insert)"],
            "known_findings_seen": known_hits.iter().collect::<Vec<_>>(),
        },
        "assumptions": [
            "values are obtained by decoding (test vectors, arbitrary bytes, earlier traffic), from Default, and by field-level spoilers derived from the generated struct definitions; types whose values cannot be reached this way are exercised on the decode side only",
            "sampling, not enumeration: a clean batch is evidence, not proof"
        ],
    });
    if write_json(&out_dir.join("evidence/C18.json"), &evidence).is_err() {
        eprintln!("bufsim: cannot write evidence");
        return 2;
    }
    for k in &known_hits {
        println!("KNOWN-FINDING: property=C18 {k}");
    }
    println!("C18: {done} runs, {events} events, {} types exercised of {}, distinct non-trivial {}, {:.1}s; violations {}", stats.types_touched.len(), w.reg.len(), stats.distinct.len(), wall, reported.len());
    if reported.is_empty() {
        0
    } else {
        for (v, path) in &reported {
            println!("  B {} [{}::{}]: {}", v.law, v.module, v.ty, v.detail);
            println!("VIOLATION property=C18 replay={}", path.display());
        }
        1
    }
}

fn replay(file: &Path) -> i32 {
    std::panic::set_hook(Box::new(|_| {}));
    let verif = PathBuf::from(std::env::var("VERIF_DIR").unwrap_or_else(|_| "/verif".into()));
    let v: Value = match std::fs::read_to_string(file).ok().and_then(|s| serde_json::from_str(&s).ok()) {
        Some(v) => v,
        None => {
            eprintln!("bufsim: cannot read {}", file.display());
            return 2;
        }
    };
    if v["tier"] == "S" {
        let exe = match std::env::var("VERIF_SHUTSIM").ok().filter(|p| !p.is_empty() && Path::new(p).exists()) {
            Some(e) => e,
            None => {
                eprintln!("bufsim: tier S is not built");
                return 2;
            }
        };
        let one = |sched: &str| -> Option<Value> {
            let o = std::process::Command::new(&exe).args(["one", "runtime", &v["seed"].to_string(), &v["run"].to_string(), sched]).env("VERIF_DIR", &verif).stderr(std::process::Stdio::null()).output().ok()?;
            serde_json::from_slice(&o.stdout).ok()
        };
        let got = one(&v["sched_seed"].to_string());
        return match got {
            Some(g) if g["violations"].as_array().map(|a| !a.is_empty()).unwrap_or(false) => {
                println!("reproduced under shuttle schedule {}: {}", v["sched_seed"], g["violations"][0]["detail"]);
                println!("VIOLATION property=C18 replay={}", file.display());
                1
            }
            Some(_) => {
                println!("not reproduced on the current tree");
                0
            }
            None => 2,
        };
    }
    if !v["marathon"].is_null() {
        let (from, upto) = (v["marathon"]["from"].as_u64().unwrap_or(0), v["marathon"]["upto"].as_u64().unwrap_or(0));
        let seed = v["seed"].as_u64().unwrap_or(1);
        let w = Arc::new(world(&verif));
        let h = std::thread::Builder::new().stack_size(8 << 20).spawn(move || (from..=upto).map(|i| sim::run_one_opts(&w, seed, i, false)).last()).map(|h| h.join());
        return match h {
            Ok(Ok(Some(last))) => match last.violation {
                Some((x, _)) => {
                    println!("reproduced: law {} [{}::{}] in run {upto} after runs {from}..{upto} on the same thread — {}", x.law, x.module, x.ty, x.detail);
                    println!("VIOLATION property=C18 replay={}", file.display());
                    1
                }
                None => {
                    println!("not reproduced on the current tree");
                    0
                }
            },
            _ => 2,
        };
    }
    let w = world(&verif);
    let module = v["module"].as_str().unwrap_or("");
    let mut types: Vec<&TypeOps> = Vec::new();
    for t in v["types"].as_array().cloned().unwrap_or_default() {
        match w.reg.iter().find(|o| o.module == module && Some(o.name) == t.as_str()) {
            Some(o) => types.push(o),
            None => {
                println!("type {module}::{t} no longer exists in the generated code: not reproduced");
                return 0;
            }
        }
    }
    let seeds: Vec<Vec<Prov>> = v["seed_values"]
        .as_array()
        .cloned()
        .unwrap_or_default()
        .iter()
        .map(|ps| {
            ps.as_array()
                .cloned()
                .unwrap_or_default()
                .iter()
                .map(|p| Prov {
                    bytes: p["decoded_from"].as_str().and_then(unhex),
                    spoilers: p["spoilers"].as_array().map(|a| a.iter().filter_map(|x| x.as_u64().map(|y| y as usize)).collect()).unwrap_or_default(),
                })
                .collect()
        })
        .collect();
    let events: Vec<Event> = match v["events"].as_array().map(|a| a.iter().map(|e| event_from_json(e, &types)).collect::<Option<Vec<_>>>()) {
        Some(Some(e)) => e,
        _ => {
            eprintln!("bufsim: malformed replay file");
            return 2;
        }
    };
    println!("VERIF_SEED={} (recorded) run={} module={} events={}", v["seed"], v["run"], module, events.len());
    let (viol, _) = run_events(types, seeds, &events);
    match viol {
        Some(x) => {
            println!("reproduced: law {} [{}::{}] at event {} — {}", x.law, x.module, x.ty, x.at_event, x.detail);
            println!("VIOLATION property=C18 replay={}", file.display());
            1
        }
        None => {
            println!("not reproduced on the current tree (recorded: {} — {})", v["violation"]["law"].as_str().unwrap_or(""), v["violation"]["detail"].as_str().unwrap_or(""));
            0
        }
    }
}

fn main() {
    let args: Vec<String> = std::env::args().collect();
    let code = match args.get(1).map(|s| s.as_str()) {
        Some("check") => {
            let tier = args.iter().position(|a| a == "--tier").and_then(|i| args.get(i + 1)).cloned().unwrap_or_else(|| std::env::var("VERIF_TIER").unwrap_or_else(|_| "quick".into()));
            check(&tier)
        }
        Some("replay") if args.len() >= 3 => replay(Path::new(&args[2])),
        Some("shard") => shard(&args[2..]),
        _ => {
            eprintln!("usage: bufsim check --tier quick|thorough | replay <file>");
            2
        }
    };
    std::process::exit(code);
}
