//! bufsim — BUF-SIM, the deterministic simulator deciding property C18 (DESIGN.md §4).
//!
//!   bufsim check --tier quick|thorough
//!   bufsim replay <file>
//!
//! One PRNG stream per run (from VERIF_SEED and the run index) draws the module, the
//! types, the enabled writer and fault kinds and then an interleaving of send / move /
//! fault / recv / recheck events over a TX stream, an RX buffer and a caller cursor.
//! The laws of laws.rs are evaluated at every send and receive. A violation is
//! minimised and written as an explicit, replayable event list.

mod laws;
mod simbuf;
#[allow(warnings, unused)]
mod gen {
    include!(concat!(env!("BUFSIM_GEN"), "/registry.rs"));
}

use laws::{Cap, LawViolation, Prov, RecvOutcome, SendOutcome, TypeOps, WriterKind};
use serde_json::{json, Value};
use simcore::{hex, stable_hash, unhex, verif_seed, write_json, Rng};
use std::collections::{BTreeMap, BTreeSet};
use std::path::{Path, PathBuf};
use std::sync::Arc;
use std::time::Instant;

const TAG_B: u64 = 0x42;
const MAX_EVENTS: usize = 64;

// ---------------------------------------------------------------- events

#[derive(Clone, Debug, PartialEq)]
enum FaultKind {
    Truncate,
    Flip,
    Dup,
    Drop,
    Insert,
}

#[derive(Clone, Debug, PartialEq)]
enum Event {
    Send { ty: usize, prov: Prov, writer: WriterKind, prior_len: usize, keep_partial: bool },
    Move { n: usize },
    Fault { kind: FaultKind, at: usize, len: usize, val: u8 },
    Recv { ty: usize },
    Recheck { k: usize },
}

fn writer_to_json(w: &WriterKind) -> Value {
    match w {
        WriterKind::Vec => json!({"kind": "vec"}),
        WriterKind::BytesMut => json!({"kind": "bytesmut"}),
        WriterKind::SliceExact => json!({"kind": "slice_exact"}),
        WriterKind::SliceSlack(k) => json!({"kind": "slice_slack", "slack": k}),
        WriterKind::LimitVec => json!({"kind": "limit_vec"}),
        WriterKind::ChainSliceVec(s) => json!({"kind": "chain_slice_vec", "split": s}),
        WriterKind::Sim { chunks, cap } => json!({"kind": "simbuf", "chunks": chunks, "cap": match cap { Cap::Exact => json!("exact"), Cap::Slack(k) => json!({"slack": k}), Cap::Ample => json!("ample") }}),
    }
}

fn writer_from_json(v: &Value) -> Option<WriterKind> {
    Some(match v["kind"].as_str()? {
        "vec" => WriterKind::Vec,
        "bytesmut" => WriterKind::BytesMut,
        "slice_exact" => WriterKind::SliceExact,
        "slice_slack" => WriterKind::SliceSlack(v["slack"].as_u64()? as usize),
        "limit_vec" => WriterKind::LimitVec,
        "chain_slice_vec" => WriterKind::ChainSliceVec(v["split"].as_u64()? as usize),
        "simbuf" => WriterKind::Sim {
            chunks: v["chunks"].as_array()?.iter().filter_map(|c| c.as_u64().map(|x| x as usize)).collect(),
            cap: match &v["cap"] {
                Value::String(s) if s == "exact" => Cap::Exact,
                Value::String(_) => Cap::Ample,
                o => Cap::Slack(o["slack"].as_u64()? as usize),
            },
        },
        _ => return None,
    })
}

fn event_to_json(e: &Event, types: &[&TypeOps]) -> Value {
    match e {
        Event::Send { ty, prov, writer, prior_len, keep_partial } => json!({
            "op": "send", "type": types[*ty].name,
            "value": {"decoded_from": prov.bytes.as_ref().map(|b| hex(b)), "spoilers": prov.spoilers},
            "writer": writer_to_json(writer), "prior_len": prior_len, "keep_partial": keep_partial,
        }),
        Event::Move { n } => json!({"op": "move", "n": n}),
        Event::Fault { kind, at, len, val } => json!({"op": "fault", "kind": format!("{kind:?}").to_lowercase(), "at": at, "len": len, "val": val}),
        Event::Recv { ty } => json!({"op": "recv", "type": types[*ty].name}),
        Event::Recheck { k } => json!({"op": "recheck", "k": k}),
    }
}

fn event_from_json(v: &Value, types: &[&TypeOps]) -> Option<Event> {
    let ty_of = |name: &str| types.iter().position(|t| t.name == name);
    Some(match v["op"].as_str()? {
        "send" => Event::Send {
            ty: ty_of(v["type"].as_str()?)?,
            prov: Prov {
                bytes: match &v["value"]["decoded_from"] {
                    Value::String(s) => Some(unhex(s)?),
                    _ => None,
                },
                spoilers: v["value"]["spoilers"].as_array()?.iter().filter_map(|x| x.as_u64().map(|y| y as usize)).collect(),
            },
            writer: writer_from_json(&v["writer"])?,
            prior_len: v["prior_len"].as_u64()? as usize,
            keep_partial: v["keep_partial"].as_bool().unwrap_or(false),
        },
        "move" => Event::Move { n: v["n"].as_u64()? as usize },
        "fault" => Event::Fault {
            kind: match v["kind"].as_str()? {
                "truncate" => FaultKind::Truncate,
                "flip" => FaultKind::Flip,
                "dup" => FaultKind::Dup,
                "drop" => FaultKind::Drop,
                _ => FaultKind::Insert,
            },
            at: v["at"].as_u64()? as usize,
            len: v["len"].as_u64()? as usize,
            val: v["val"].as_u64()? as u8,
        },
        "recv" => Event::Recv { ty: ty_of(v["type"].as_str()?)? },
        "recheck" => Event::Recheck { k: v["k"].as_u64()? as usize },
        _ => return None,
    })
}

// ---------------------------------------------------------------- simulation state

#[derive(Default, Clone)]
struct Stats {
    c: BTreeMap<String, u64>,
    distinct: BTreeSet<u64>,
    required_panics: BTreeMap<String, u64>,
    types_touched: BTreeSet<String>,
}

impl Stats {
    fn bump(&mut self, k: &str) {
        *self.c.entry(k.to_string()).or_insert(0) += 1;
    }
    fn add(&mut self, k: &str, n: u64) {
        *self.c.entry(k.to_string()).or_insert(0) += n;
    }
    fn merge(&mut self, o: &Stats) {
        for (k, v) in &o.c {
            *self.c.entry(k.clone()).or_insert(0) += v;
        }
        self.distinct.extend(o.distinct.iter().copied());
        for (k, v) in &o.required_panics {
            *self.required_panics.entry(k.clone()).or_insert(0) += v;
        }
        self.types_touched.extend(o.types_touched.iter().cloned());
    }
}

struct Sim<'a> {
    types: Vec<&'a TypeOps>,
    pool: Vec<Vec<Prov>>,
    tx: Vec<u8>,
    rx: Vec<u8>,
    cursor: usize,
    recv_log: Vec<(usize, Vec<u8>, String)>,
    stats: Stats,
    fail_streak: usize,
}

#[derive(Clone, Debug)]
struct Violation {
    law: &'static str,
    ty: String,
    module: String,
    detail: String,
    at_event: usize,
}

fn canary(n: usize) -> Vec<u8> {
    (0..n).map(|i| 0xC0u8.wrapping_add((i * 7) as u8)).collect()
}

fn recv_digest(o: &RecvOutcome) -> String {
    match o {
        RecvOutcome::Decoded { consumed, remainder_empty, .. } => format!("decoded:{consumed}:{remainder_empty}"),
        RecvOutcome::Failed(e) => format!("failed:{e}"),
        RecvOutcome::RequiredPanic(_) => "required-panic".into(),
        RecvOutcome::Violation(v) => format!("violation:{}", v.law),
    }
}

impl<'a> Sim<'a> {
    fn new(types: Vec<&'a TypeOps>, seeds: Vec<Vec<Prov>>) -> Sim<'a> {
        Sim { types, pool: seeds, tx: Vec::new(), rx: Vec::new(), cursor: 0, recv_log: Vec::new(), stats: Stats::default(), fail_streak: 0 }
    }

    fn viol(&self, v: LawViolation, ty: usize, at: usize) -> Violation {
        Violation { law: v.law, ty: self.types[ty].name.to_string(), module: self.types[ty].module.to_string(), detail: v.detail, at_event: at }
    }

    /// Execute one event; Err = a law was violated.
    fn step(&mut self, e: &Event, idx: usize) -> Result<(), Violation> {
        match e {
            Event::Send { ty, prov, writer, prior_len, keep_partial } => {
                let ops = self.types[*ty];
                let prior: Vec<u8> = if *prior_len <= self.tx.len() { self.tx[self.tx.len() - prior_len..].to_vec() } else { canary(*prior_len) };
                self.stats.bump("send");
                self.stats.bump(&format!("writer.{}", writer.tag()));
                self.stats.types_touched.insert(format!("{}::{}", ops.module, ops.name));
                if !prior.is_empty() {
                    self.stats.bump("send.into_nonempty_buffer");
                }
                if !prov.spoilers.is_empty() {
                    self.stats.bump("send.spoiled_value");
                }
                match (ops.send)(prov, writer, &prior) {
                    SendOutcome::NoValue => self.stats.bump("send.no_value"),
                    SendOutcome::RequiredPanic(m) => {
                        self.stats.bump("send.required_method_panic");
                        *self.stats.required_panics.entry(format!("{}::{}: {}", ops.module, ops.name, m.chars().take(80).collect::<String>())).or_insert(0) += 1;
                    }
                    SendOutcome::Violation(v) => return Err(self.viol(v, *ty, idx)),
                    SendOutcome::Sent { appended, ok, encoded_len, boundaries_crossed, len_mismatch, .. } => {
                        if ok {
                            self.stats.bump("send.ok");
                            if len_mismatch {
                                self.stats.bump("byproduct.encoded_len_differs_from_bytes_written(C05)");
                            }
                            if boundaries_crossed > 0 {
                                self.stats.bump("send.chunk_boundary_inside_packet");
                                self.stats.add("send.chunk_boundaries_crossed", boundaries_crossed as u64);
                                self.stats.distinct.insert(stable_hash(&("send", ops.module, ops.name, writer.tag(), stable_hash(writer), appended.len())));
                            }
                            if matches!(writer, WriterKind::SliceExact | WriterKind::LimitVec | WriterKind::Sim { cap: Cap::Exact, .. }) {
                                self.stats.bump("send.exact_capacity");
                            }
                            let _ = encoded_len;
                            self.tx.extend_from_slice(&appended);
                        } else {
                            self.stats.bump("send.encode_error");
                            if !appended.is_empty() {
                                self.stats.bump("send.encode_error_after_partial_write");
                                if *keep_partial {
                                    // the caller's buffer now really holds the partial bytes: corrupted traffic
                                    self.tx.extend_from_slice(&appended);
                                }
                            }
                        }
                    }
                }
            }
            Event::Move { n } => {
                let n = (*n).min(self.tx.len());
                let moved: Vec<u8> = self.tx.drain(..n).collect();
                self.rx.extend_from_slice(&moved);
                self.stats.bump("move");
            }
            Event::Fault { kind, at, len, val } => {
                if self.tx.is_empty() {
                    self.stats.bump("fault.skipped_idle");
                    return Ok(());
                }
                let at = at % self.tx.len();
                let len = (*len).min(self.tx.len() - at).max(1);
                match kind {
                    FaultKind::Truncate => self.tx.truncate(at),
                    FaultKind::Flip => self.tx[at] ^= 1 << (val % 8),
                    FaultKind::Dup => {
                        let seg = self.tx[at..at + len].to_vec();
                        let tail = self.tx.split_off(at);
                        self.tx.extend_from_slice(&seg);
                        self.tx.extend_from_slice(&tail);
                    }
                    FaultKind::Drop => {
                        self.tx.drain(at..at + len);
                    }
                    FaultKind::Insert => {
                        let tail = self.tx.split_off(at);
                        self.tx.extend((0..len).map(|i| val.wrapping_mul(31).wrapping_add(i as u8)));
                        self.tx.extend_from_slice(&tail);
                    }
                }
                self.stats.bump(&format!("fault.{}", format!("{kind:?}").to_lowercase()));
            }
            Event::Recv { ty } => {
                let ops = self.types[*ty];
                // the receive slice is a fresh, exactly-sized allocation
                let s: Vec<u8> = self.rx[self.cursor..].to_vec();
                self.stats.bump("recv");
                self.stats.types_touched.insert(format!("{}::{}", ops.module, ops.name));
                let o = (ops.recv)(&s);
                let dg = recv_digest(&o);
                if self.recv_log.len() < 64 && s.len() <= 2048 {
                    self.recv_log.push((*ty, s.clone(), dg));
                }
                match o {
                    RecvOutcome::Violation(v) => return Err(self.viol(v, *ty, idx)),
                    RecvOutcome::RequiredPanic(m) => {
                        self.stats.bump("recv.required_method_panic");
                        *self.stats.required_panics.entry(format!("{}::{}: {}", ops.module, ops.name, m.chars().take(80).collect::<String>())).or_insert(0) += 1;
                        self.fail_streak += 1;
                    }
                    RecvOutcome::Decoded { consumed, remainder_empty, suffix_ok } => {
                        self.stats.bump("recv.decoded");
                        self.stats.bump(if remainder_empty { "recv.decoded_remainder_empty" } else { "recv.decoded_with_trailing_bytes" });
                        if !suffix_ok {
                            self.stats.bump("byproduct.remainder_not_a_suffix_by_address(C01)");
                        }
                        self.stats.distinct.insert(stable_hash(&("recv", ops.module, ops.name, s.len(), consumed)));
                        let p = Prov { bytes: Some(s[..consumed.min(s.len())].to_vec()), spoilers: vec![] };
                        let pool = &mut self.pool[*ty];
                        if pool.len() < 24 {
                            pool.push(p);
                        } else {
                            let k = (stable_hash(&p) % 24) as usize;
                            pool[k] = p;
                        }
                        self.cursor += consumed.min(s.len());
                        self.fail_streak = 0;
                    }
                    RecvOutcome::Failed(_) => {
                        self.stats.bump("recv.decode_error");
                        self.stats.distinct.insert(stable_hash(&("recv-err", ops.module, ops.name, s.len())));
                        self.fail_streak += 1;
                    }
                }
                // a receiver that cannot make progress on a long backlog resynchronises by one byte
                if self.fail_streak >= 3 && self.rx.len() - self.cursor > 0 {
                    self.cursor += 1;
                    self.fail_streak = 0;
                    self.stats.bump("recv.resync_skip_byte");
                }
            }
            Event::Recheck { k } => {
                if self.recv_log.is_empty() {
                    return Ok(());
                }
                let (ty, bytes, dg) = self.recv_log[k % self.recv_log.len()].clone();
                let ops = self.types[ty];
                self.stats.bump("recheck(D3)");
                let copy = bytes.clone();
                let o = (ops.recv)(&copy);
                if let RecvOutcome::Violation(v) = o {
                    return Err(self.viol(v, ty, idx));
                }
                let dg2 = recv_digest(&o);
                if dg2 != dg {
                    return Err(self.viol(
                        LawViolation { law: "D3", detail: format!("the same input decoded differently later in the run: first '{dg}', now '{dg2}'; input {}", hex(&bytes[..bytes.len().min(48)])) },
                        ty,
                        idx,
                    ));
                }
            }
        }
        Ok(())
    }
}

// ---------------------------------------------------------------- drawing

struct Swarm {
    writers: Vec<u8>,
    faults: Vec<FaultKind>,
    spoil_rate: u64,
    max_chunk: usize,
}

fn draw_swarm(rng: &mut Rng) -> Swarm {
    let mut writers: Vec<u8> = (0..9).filter(|_| rng.below(2) == 0).collect();
    if writers.is_empty() {
        writers.push(rng.below(9) as u8);
    }
    let all = [FaultKind::Truncate, FaultKind::Flip, FaultKind::Dup, FaultKind::Drop, FaultKind::Insert];
    let faults: Vec<FaultKind> = all.iter().filter(|_| rng.below(2) == 0).cloned().collect();
    Swarm { writers, faults, spoil_rate: *rng.pick(&[0u64, 4, 4, 2]), max_chunk: *rng.pick(&[1usize, 2, 3, 5, 8, 64]) }
}

fn draw_writer(rng: &mut Rng, sw: &Swarm) -> WriterKind {
    let chunks = |rng: &mut Rng| -> Vec<usize> {
        let n = rng.range(1, 6) as usize;
        (0..n).map(|_| rng.range(1, sw.max_chunk as u64) as usize).collect()
    };
    match *rng.pick(&sw.writers) {
        0 => WriterKind::Vec,
        1 => WriterKind::BytesMut,
        2 => WriterKind::SliceExact,
        3 => WriterKind::SliceSlack(rng.range(1, 9) as usize),
        4 => WriterKind::LimitVec,
        5 => WriterKind::ChainSliceVec(rng.range(0, 12) as usize),
        6 => WriterKind::Sim { chunks: chunks(rng), cap: Cap::Exact },
        7 => WriterKind::Sim { chunks: chunks(rng), cap: Cap::Slack(rng.range(1, 5) as usize) },
        _ => WriterKind::Sim { chunks: chunks(rng), cap: Cap::Ample },
    }
}

fn draw_event(rng: &mut Rng, sim: &Sim, sw: &Swarm) -> Event {
    let nt = sim.types.len() as u64;
    let r = rng.below(100);
    // faults need workload in flight; receives need bytes
    if r < 38 || (sim.tx.is_empty() && sim.rx.len() == sim.cursor) {
        let ty = rng.below(nt) as usize;
        let pool = &sim.pool[ty];
        let mut prov = if pool.is_empty() { Prov { bytes: None, spoilers: vec![] } } else { rng.pick(pool).clone() };
        let ns = sim.types[ty].n_spoilers as u64;
        if ns > 0 && sw.spoil_rate > 0 && rng.below(sw.spoil_rate) == 0 {
            prov.spoilers.push(rng.below(ns) as usize);
            if rng.below(4) == 0 {
                prov.spoilers.push(rng.below(ns) as usize);
            }
        }
        let prior_len = match rng.below(4) {
            0 => 0,
            1 => rng.range(1, 8) as usize,
            2 => sim.tx.len().min(64),
            _ => rng.range(1, 40) as usize,
        };
        Event::Send { ty, prov, writer: draw_writer(rng, sw), prior_len, keep_partial: rng.below(2) == 0 }
    } else if r < 60 {
        let avail = sim.tx.len().max(1) as u64;
        let n = match rng.below(3) {
            0 => rng.range(1, avail.min(4)),
            1 => avail,
            _ => rng.range(1, avail),
        };
        Event::Move { n: n as usize }
    } else if r < 70 && !sw.faults.is_empty() && !sim.tx.is_empty() {
        Event::Fault { kind: rng.pick(&sw.faults).clone(), at: rng.below(sim.tx.len() as u64) as usize, len: rng.range(1, 6) as usize, val: rng.below(256) as u8 }
    } else if r < 95 {
        Event::Recv { ty: rng.below(nt) as usize }
    } else {
        Event::Recheck { k: rng.below(64) as usize }
    }
}

// ---------------------------------------------------------------- registry and vectors

struct World {
    reg: Vec<TypeOps>,
    by_module: BTreeMap<&'static str, Vec<usize>>,
    /// module -> type name -> packed test vectors
    vectors: BTreeMap<String, BTreeMap<String, Vec<Vec<u8>>>>,
}

fn load_vectors(verif: &Path) -> BTreeMap<String, BTreeMap<String, Vec<Vec<u8>>>> {
    let mut out = BTreeMap::new();
    for (module, file) in [("canonical_le", "le_test_vectors.json"), ("canonical_be", "be_test_vectors.json")] {
        let mut m: BTreeMap<String, Vec<Vec<u8>>> = BTreeMap::new();
        if let Some(v) = std::fs::read_to_string(verif.join("corpus").join(file)).ok().and_then(|s| serde_json::from_str::<Value>(&s).ok()) {
            for p in v.as_array().cloned().unwrap_or_default() {
                let name = p["packet"].as_str().unwrap_or("").to_string();
                for t in p["tests"].as_array().cloned().unwrap_or_default() {
                    if let Some(b) = t["packed"].as_str().and_then(unhex) {
                        m.entry(name.clone()).or_default().push(b.clone());
                        if let Some(child) = t["packet"].as_str() {
                            m.entry(child.to_string()).or_default().push(b);
                        }
                    }
                }
            }
        }
        out.insert(module.to_string(), m);
    }
    out
}

fn seeds_for(w: &World, ti: usize, rng: &mut Rng) -> Vec<Prov> {
    let ops = &w.reg[ti];
    let mut v = vec![Prov { bytes: None, spoilers: vec![] }];
    if let Some(m) = w.vectors.get(ops.module) {
        if let Some(list) = m.get(ops.name) {
            for _ in 0..4 {
                v.push(Prov { bytes: Some(rng.pick(list).clone()), spoilers: vec![] });
            }
        } else {
            // types without named vectors (structs, custom fields): try other packets' bytes
            let all: Vec<&Vec<u8>> = m.values().flatten().collect();
            for _ in 0..8 {
                if all.is_empty() {
                    break;
                }
                let b = (*rng.pick(&all)).clone();
                let p = Prov { bytes: Some(b), spoilers: vec![] };
                if (ops.has_value)(&p) {
                    v.push(p);
                }
            }
        }
    }
    // values born from arbitrary bytes
    for _ in 0..6 {
        let n = rng.range(0, 24) as usize;
        let b: Vec<u8> = match rng.below(3) {
            0 => vec![0; n],
            1 => (0..n).map(|_| rng.below(4) as u8).collect(),
            _ => (0..n).map(|_| rng.below(256) as u8).collect(),
        };
        let p = Prov { bytes: Some(b), spoilers: vec![] };
        if (ops.has_value)(&p) {
            v.push(p);
        }
    }
    v
}

// ---------------------------------------------------------------- one run

struct RunResult {
    stats: Stats,
    violation: Option<(Violation, Value)>,
    digest: u64,
    events: usize,
    sample: Option<Value>,
}

fn run_events(types: Vec<&TypeOps>, seeds: Vec<Vec<Prov>>, events: &[Event]) -> (Option<Violation>, Stats) {
    let mut sim = Sim::new(types, seeds);
    for (i, e) in events.iter().enumerate() {
        if let Err(v) = sim.step(e, i) {
            return (Some(v), sim.stats);
        }
    }
    (None, sim.stats)
}

fn replay_doc(seed: u64, run: u64, module: &str, types: &[&TypeOps], seeds: &[Vec<Prov>], events: &[Event], v: &Violation, min_steps: u32, original_len: usize) -> Value {
    json!({
        "property": "C18", "seed": seed, "run": run, "module": module,
        "types": types.iter().map(|t| t.name).collect::<Vec<_>>(),
        "seed_values": seeds.iter().map(|ps| ps.iter().map(|p| json!({"decoded_from": p.bytes.as_ref().map(|b| hex(b)), "spoilers": p.spoilers})).collect::<Vec<_>>()).collect::<Vec<_>>(),
        "events": events.iter().map(|e| event_to_json(e, types)).collect::<Vec<_>>(),
        "violation": {"law": v.law, "type": v.ty, "detail": v.detail, "at_event": v.at_event},
        "minimisation_steps": min_steps, "original_event_count": original_len,
    })
}

fn minimise(types: &[&TypeOps], seeds: &[Vec<Prov>], events: &[Event], v: &Violation) -> (Vec<Event>, Violation, u32) {
    let mut best: Vec<Event> = events[..=v.at_event.min(events.len() - 1)].to_vec();
    let mut best_v = v.clone();
    let mut steps = 0u32;
    let same = |cand: &[Event]| -> Option<Violation> {
        let (vv, _) = run_events(types.to_vec(), seeds.to_vec(), cand);
        vv.filter(|x| x.law == v.law && x.ty == v.ty)
    };
    // drop events, last to first
    let mut i = best.len();
    while i > 0 {
        i -= 1;
        if best.len() <= 1 {
            break;
        }
        let mut cand = best.clone();
        cand.remove(i);
        if let Some(vv) = same(&cand) {
            best = cand;
            best_v = vv;
            steps += 1;
        }
    }
    // simplify what remains
    for i in 0..best.len() {
        let mut cand = best.clone();
        if let Event::Send { prov, writer, prior_len, .. } = &mut cand[i] {
            let mut tries: Vec<Event> = Vec::new();
            let base = best[i].clone();
            if let Event::Send { ty, keep_partial, .. } = base {
                if !prov.spoilers.is_empty() {
                    tries.push(Event::Send { ty, prov: Prov { bytes: prov.bytes.clone(), spoilers: vec![] }, writer: writer.clone(), prior_len: *prior_len, keep_partial });
                }
                if *prior_len > 0 {
                    tries.push(Event::Send { ty, prov: prov.clone(), writer: writer.clone(), prior_len: 0, keep_partial });
                }
                if let WriterKind::Sim { chunks, cap } = writer {
                    if chunks.len() > 1 || chunks[0] > 1 {
                        tries.push(Event::Send { ty, prov: prov.clone(), writer: WriterKind::Sim { chunks: vec![1 << 20], cap: cap.clone() }, prior_len: *prior_len, keep_partial });
                    }
                }
                if !matches!(writer, WriterKind::Vec) {
                    tries.push(Event::Send { ty, prov: prov.clone(), writer: WriterKind::Vec, prior_len: *prior_len, keep_partial });
                }
                if prov.bytes.is_some() {
                    tries.push(Event::Send { ty, prov: Prov { bytes: None, spoilers: prov.spoilers.clone() }, writer: writer.clone(), prior_len: *prior_len, keep_partial });
                }
            }
            for t in tries {
                let mut c2 = best.clone();
                c2[i] = t;
                if let Some(vv) = same(&c2) {
                    best = c2;
                    best_v = vv;
                    steps += 1;
                }
            }
        }
    }
    (best, best_v, steps)
}

fn run_one(w: &World, seed: u64, run: u64) -> RunResult {
    let mut rng = Rng::for_run(seed, TAG_B, run);
    let modules: Vec<&&'static str> = w.by_module.keys().collect();
    let module: &'static str = **rng.pick(&modules);
    let all = &w.by_module[module];
    let nt = rng.range(1, 6.min(all.len() as u64)) as usize;
    let mut idx: Vec<usize> = all.clone();
    rng.shuffle(&mut idx);
    idx.truncate(nt);
    let types: Vec<&TypeOps> = idx.iter().map(|i| &w.reg[*i]).collect();
    let seeds: Vec<Vec<Prov>> = idx.iter().map(|i| seeds_for(w, *i, &mut rng)).collect();
    let sw = draw_swarm(&mut rng);
    let n_events = rng.range(8, MAX_EVENTS as u64) as usize;
    let mut sim = Sim::new(types.clone(), seeds.clone());
    let mut events: Vec<Event> = Vec::with_capacity(n_events);
    let mut violation = None;
    for i in 0..n_events {
        let e = draw_event(&mut rng, &sim, &sw);
        events.push(e.clone());
        if let Err(v) = sim.step(&e, i) {
            violation = Some(v);
            break;
        }
    }
    let digest = stable_hash(&(run, module, format!("{:?}", events), format!("{:?}", sim.stats.c), violation.as_ref().map(|v| (v.law, v.detail.clone()))));
    let sample = if run % 4001 == 7 {
        Some(json!({"run": run, "module": module, "types": types.iter().map(|t| t.name).collect::<Vec<_>>(), "events": events.iter().take(12).map(|e| event_to_json(e, &types)).collect::<Vec<_>>(), "event_count": events.len(), "verdict": if violation.is_some() { "violation" } else { "held" }}))
    } else {
        None
    };
    let violation = violation.map(|v| {
        let (me, mv, steps) = minimise(&types, &seeds, &events, &v);
        let doc = replay_doc(seed, run, module, &types, &seeds, &me, &mv, steps, events.len());
        (mv, doc)
    });
    RunResult { stats: sim.stats, violation, digest, events: events.len(), sample }
}

// ---------------------------------------------------------------- known findings

struct Known {
    findings: Vec<Value>,
}

impl Known {
    fn load(verif: &Path) -> Known {
        let v: Value = std::fs::read_to_string(verif.join("known_findings.json")).ok().and_then(|s| serde_json::from_str(&s).ok()).unwrap_or(json!({}));
        Known { findings: v["findings"].as_array().cloned().unwrap_or_default().into_iter().filter(|f| f["property"] == "C18").collect() }
    }
    fn matches(&self, v: &Violation) -> Option<&Value> {
        self.findings.iter().find(|f| {
            let m = match f["match"].as_object() {
                Some(m) => m,
                None => return false,
            };
            m.iter().all(|(k, x)| match k.as_str() {
                "law" => x.as_str() == Some(v.law),
                "type" => x.as_str() == Some(v.ty.as_str()),
                "module" => x.as_str() == Some(v.module.as_str()),
                "detail_contains" => v.detail.contains(x.as_str().unwrap_or("\u{0}")),
                _ => false,
            })
        })
    }
}

// ---------------------------------------------------------------- main

fn env_u64(name: &str, d: u64) -> u64 {
    std::env::var(name).ok().and_then(|s| s.parse().ok()).unwrap_or(d)
}

fn world(verif: &Path) -> World {
    let reg = gen::registry();
    let mut by_module: BTreeMap<&'static str, Vec<usize>> = BTreeMap::new();
    for (i, t) in reg.iter().enumerate() {
        by_module.entry(t.module).or_default().push(i);
    }
    World { reg, by_module, vectors: load_vectors(verif) }
}

fn check(tier: &str) -> i32 {
    let t0 = Instant::now();
    let seed = verif_seed();
    let verif = PathBuf::from(std::env::var("VERIF_DIR").unwrap_or_else(|_| "/verif".into()));
    let out_dir = PathBuf::from(std::env::var("VERIF_OUT").unwrap_or_else(|_| verif.to_string_lossy().into_owned()));
    println!("C18 BUF-SIM: VERIF_SEED={seed} tier={tier}");
    std::panic::set_hook(Box::new(|_| {}));
    let thorough = tier == "thorough";
    let runs = env_u64("VERIF_B_RUNS", if thorough { 4_000_000 } else { 60_000 });
    let budget = env_u64("VERIF_BUDGET_S", if thorough { 3000 } else { 200 });
    let nworkers = env_u64("VERIF_WORKERS", std::thread::available_parallelism().map(|n| n.get() as u64).unwrap_or(8)) as usize;
    let w = Arc::new(world(&verif));
    if w.reg.is_empty() {
        eprintln!("bufsim: harness error: empty type registry");
        return 2;
    }
    let known = Known::load(&verif);

    let run_range = move |w: Arc<World>, from: u64, to: u64, stride: u64, deadline: Instant| -> (Stats, Vec<(u64, Violation, Value)>, Vec<(u64, u64)>, u64, u64, Vec<Value>) {
        let mut stats = Stats::default();
        let mut viols = Vec::new();
        let mut digests = Vec::new();
        let mut n = 0u64;
        let mut events = 0u64;
        let mut samples = Vec::new();
        let mut i = from;
        while i < to {
            if n % 256 == 0 && Instant::now() > deadline {
                break;
            }
            let r = run_one(&w, seed, i);
            stats.merge(&r.stats);
            digests.push((i, r.digest));
            events += r.events as u64;
            n += 1;
            if let Some(s) = r.sample {
                if samples.len() < 2 {
                    samples.push(s);
                }
            }
            if let Some((v, doc)) = r.violation {
                if viols.len() < 20 {
                    viols.push((i, v, doc));
                }
            }
            i += stride;
        }
        (stats, viols, digests, n, events, samples)
    };

    let deadline = Instant::now() + std::time::Duration::from_secs(budget);
    let mut handles = Vec::new();
    for k in 0..nworkers as u64 {
        let w = w.clone();
        handles.push(std::thread::Builder::new().stack_size(64 << 20).spawn(move || run_range(w, k, runs, nworkers as u64, deadline)).unwrap());
    }
    let mut stats = Stats::default();
    let mut viols: Vec<(u64, Violation, Value)> = Vec::new();
    let mut digests: BTreeMap<u64, u64> = BTreeMap::new();
    let mut done = 0u64;
    let mut events = 0u64;
    let mut samples = Vec::new();
    for h in handles {
        match h.join() {
            Ok((s, v, d, n, e, sm)) => {
                stats.merge(&s);
                viols.extend(v);
                digests.extend(d);
                done += n;
                events += e;
                samples.extend(sm);
            }
            Err(_) => {
                eprintln!("bufsim: harness error: worker thread panicked");
                return 2;
            }
        }
    }
    // determinism self-check: the first runs again, on one thread
    let sc = env_u64("VERIF_SELFCHECK_RUNS", if thorough { 20_000 } else { 2_000 }).min(runs);
    {
        let (_, _, d2, _, _, _) = run_range(w.clone(), 0, sc, 1, Instant::now() + std::time::Duration::from_secs(600));
        for (i, dg) in d2 {
            if let Some(a) = digests.get(&i) {
                if *a != dg {
                    eprintln!("bufsim: harness error: run {i} is not deterministic ({a:x} vs {dg:x})");
                    return 2;
                }
            }
        }
    }
    viols.sort_by_key(|v| v.0);
    let mut reported: Vec<(Violation, PathBuf)> = Vec::new();
    let mut known_hits: BTreeSet<String> = BTreeSet::new();
    let mut seen_classes: BTreeSet<(String, String)> = BTreeSet::new();
    for (run, v, doc) in &viols {
        if let Some(f) = known.matches(v) {
            known_hits.insert(f["what"].as_str().unwrap_or("known finding").to_string());
            continue;
        }
        if !seen_classes.insert((v.law.to_string(), v.ty.clone())) && reported.len() >= 3 {
            continue;
        }
        let path = out_dir.join("replays").join(format!("C18-{seed}-{run}.json"));
        let mut doc = doc.clone();
        doc["replay"] = json!(format!("bin/check C18 --replay {}", path.display()));
        if write_json(&path, &doc).is_err() {
            eprintln!("bufsim: cannot write {}", path.display());
            return 2;
        }
        reported.push((v.clone(), path));
        if reported.len() >= 12 {
            break;
        }
    }
    let wall = t0.elapsed().as_secs_f64();
    if samples.is_empty() {
        samples.push(json!({"note": "no sample selected"}));
    }
    let mut top_panics: Vec<(&String, &u64)> = stats.required_panics.iter().collect();
    top_panics.sort_by(|a, b| b.1.cmp(a.1));
    let modules: Vec<&&str> = w.by_module.keys().collect();
    let evidence = json!({
        "property_id": "C18", "tier": if thorough { "thorough" } else { "quick" }, "seed": seed, "level": "exploration",
        "wall_s": wall, "violations": reported.len(),
        "coverage": {
            "evaluations": done,
            "distinct_nontrivial": stats.distinct.len(),
            "rule": "one evaluation = one simulated run of up to 64 events (send into a simulated caller buffer / move / fault on bytes in flight / recv on a caller cursor / recheck) over 1–6 generated Packet types of one description. distinct_nontrivial counts distinct (type, writer kind, chunk schedule, length) sends in which at least one chunk boundary fell inside the packet, plus distinct (type, input length, consumed length) receives and distinct (type, input length) failed receives.",
            "samples": samples,
            "runs_requested": runs, "events": events,
            "runs_per_hour": if wall > 0.0 { (done as f64 / wall * 3600.0) as u64 } else { 0 },
            "counters": stats.c,
            "types_registered": w.reg.len(), "types_exercised": stats.types_touched.len(),
            "modules": modules,
            "required_method_panics_not_judged": top_panics.iter().take(12).map(|(k, v)| json!({"where": k, "count": v})).collect::<Vec<_>>(),
            "determinism_selfcheck_runs": sc,
            "simulated_time": "none: the code under test has no timers; event order is the only notion of time",
            "real_components": ["pdl-runtime trait Packet (provided methods)", "encode/encoded_len/decode of every packet, struct and sized custom-field type pdlc generates for the codec corpus (rebuilt from /repo)", "bytes crate writers Vec, BytesMut, &mut [u8], Limit, Chain"],
            "stubbed_components": ["SimBuf (simulator-owned BufMut: chunk schedule, capacity, prior content)", "TX stream, RX buffer, caller cursor, value pool", "faults on bytes in flight (truncate, flip, dup, drop, insert)"],
            "known_findings_seen": known_hits.iter().collect::<Vec<_>>(),
        },
        "assumptions": [
            "values are obtained by decoding (test vectors, arbitrary bytes, earlier traffic), from Default, and by field-level spoilers derived from the generated struct definitions; types whose values cannot be reached this way are exercised on the decode side only",
            "sampling, not enumeration: a clean batch is evidence, not proof"
        ],
    });
    if write_json(&out_dir.join("evidence/C18.json"), &evidence).is_err() {
        eprintln!("bufsim: cannot write evidence");
        return 2;
    }
    for k in &known_hits {
        println!("KNOWN-FINDING: property=C18 {k}");
    }
    println!("C18: {done} runs, {events} events, {} types exercised of {}, distinct non-trivial {}, {:.1}s; violations {}", stats.types_touched.len(), w.reg.len(), stats.distinct.len(), wall, reported.len());
    if reported.is_empty() {
        0
    } else {
        for (v, path) in &reported {
            println!("  B {} [{}::{}]: {}", v.law, v.module, v.ty, v.detail);
            println!("VIOLATION property=C18 replay={}", path.display());
        }
        1
    }
}

fn replay(file: &Path) -> i32 {
    std::panic::set_hook(Box::new(|_| {}));
    let verif = PathBuf::from(std::env::var("VERIF_DIR").unwrap_or_else(|_| "/verif".into()));
    let v: Value = match std::fs::read_to_string(file).ok().and_then(|s| serde_json::from_str(&s).ok()) {
        Some(v) => v,
        None => {
            eprintln!("bufsim: cannot read {}", file.display());
            return 2;
        }
    };
    let w = world(&verif);
    let module = v["module"].as_str().unwrap_or("");
    let mut types: Vec<&TypeOps> = Vec::new();
    for t in v["types"].as_array().cloned().unwrap_or_default() {
        match w.reg.iter().find(|o| o.module == module && Some(o.name) == t.as_str()) {
            Some(o) => types.push(o),
            None => {
                println!("type {module}::{t} no longer exists in the generated code: not reproduced");
                return 0;
            }
        }
    }
    let seeds: Vec<Vec<Prov>> = v["seed_values"]
        .as_array()
        .cloned()
        .unwrap_or_default()
        .iter()
        .map(|ps| {
            ps.as_array()
                .cloned()
                .unwrap_or_default()
                .iter()
                .map(|p| Prov {
                    bytes: p["decoded_from"].as_str().and_then(unhex),
                    spoilers: p["spoilers"].as_array().map(|a| a.iter().filter_map(|x| x.as_u64().map(|y| y as usize)).collect()).unwrap_or_default(),
                })
                .collect()
        })
        .collect();
    let events: Vec<Event> = match v["events"].as_array().map(|a| a.iter().map(|e| event_from_json(e, &types)).collect::<Option<Vec<_>>>()) {
        Some(Some(e)) => e,
        _ => {
            eprintln!("bufsim: malformed replay file");
            return 2;
        }
    };
    println!("VERIF_SEED={} (recorded) run={} module={} events={}", v["seed"], v["run"], module, events.len());
    let (viol, _) = run_events(types, seeds, &events);
    match viol {
        Some(x) => {
            println!("reproduced: law {} [{}::{}] at event {} — {}", x.law, x.module, x.ty, x.at_event, x.detail);
            println!("VIOLATION property=C18 replay={}", file.display());
            1
        }
        None => {
            println!("not reproduced on the current tree (recorded: {} — {})", v["violation"]["law"].as_str().unwrap_or(""), v["violation"]["detail"].as_str().unwrap_or(""));
            0
        }
    }
}

fn main() {
    let args: Vec<String> = std::env::args().collect();
    let code = match args.get(1).map(|s| s.as_str()) {
        Some("check") => {
            let tier = args.iter().position(|a| a == "--tier").and_then(|i| args.get(i + 1)).cloned().unwrap_or_else(|| std::env::var("VERIF_TIER").unwrap_or_else(|_| "quick".into()));
            check(&tier)
        }
        Some("replay") if args.len() >= 3 => replay(Path::new(&args[2])),
        _ => {
            eprintln!("usage: bufsim check --tier quick|thorough | replay <file>");
            2
        }
    };
    std::process::exit(code);
}
