//! The BUF-SIM simulation core: events, simulated TX/RX state, drawing, execution,
//! minimisation. Shared by bufsim (C18) and tierd (the derive-vs-CLI tier of C11).

use buflaws::laws::{Cap, LawViolation, Prov, RecvOutcome, SendOutcome, TypeOps, WriterKind};
use serde_json::{json, Value};
use simcore::{hex, stable_hash, unhex, Rng};
use std::collections::{BTreeMap, BTreeSet};
use std::path::Path;

pub const TAG_B: u64 = 0x42;
pub const MAX_EVENTS: usize = 64;

// ---------------------------------------------------------------- events

#[derive(Clone, Debug, PartialEq)]
pub enum FaultKind {
    Truncate,
    Flip,
    Dup,
    Drop,
    Insert,
}

#[derive(Clone, Debug, PartialEq)]
pub enum Event {
    Send { ty: usize, prov: Prov, writer: WriterKind, prior_len: usize, keep_partial: bool },
    Move { n: usize },
    Fault { kind: FaultKind, at: usize, len: usize, val: u8 },
    Recv { ty: usize },
    Recheck { k: usize },
}

pub fn writer_to_json(w: &WriterKind) -> Value {
    match w {
        WriterKind::Vec => json!({"kind": "vec"}),
        WriterKind::BytesMut => json!({"kind": "bytesmut"}),
        WriterKind::SliceExact => json!({"kind": "slice_exact"}),
        WriterKind::SliceSlack(k) => json!({"kind": "slice_slack", "slack": k}),
        WriterKind::LimitVec => json!({"kind": "limit_vec"}),
        WriterKind::ChainSliceVec(s) => json!({"kind": "chain_slice_vec", "split": s}),
        WriterKind::Chain3Vec => json!({"kind": "chain3_growable"}),
        WriterKind::Sim { chunks, cap } => json!({"kind": "simbuf", "chunks": chunks, "cap": match cap { Cap::Exact => json!("exact"), Cap::Slack(k) => json!({"slack": k}), Cap::Ample => json!("ample"), Cap::Unbounded => json!("unbounded") }}),
    }
}

pub fn writer_from_json(v: &Value) -> Option<WriterKind> {
    Some(match v["kind"].as_str()? {
        "vec" => WriterKind::Vec,
        "bytesmut" => WriterKind::BytesMut,
        "slice_exact" => WriterKind::SliceExact,
        "slice_slack" => WriterKind::SliceSlack(v["slack"].as_u64()? as usize),
        "limit_vec" => WriterKind::LimitVec,
        "chain_slice_vec" => WriterKind::ChainSliceVec(v["split"].as_u64()? as usize),
        "chain3_growable" => WriterKind::Chain3Vec,
        "simbuf" => WriterKind::Sim {
            chunks: v["chunks"].as_array()?.iter().filter_map(|c| c.as_u64().map(|x| x as usize)).collect(),
            cap: match &v["cap"] {
                Value::String(s) if s == "exact" => Cap::Exact,
                Value::String(s) if s == "unbounded" => Cap::Unbounded,
                Value::String(_) => Cap::Ample,
                o => Cap::Slack(o["slack"].as_u64()? as usize),
            },
        },
        _ => return None,
    })
}

pub fn event_to_json(e: &Event, types: &[&TypeOps]) -> Value {
    match e {
        Event::Send { ty, prov, writer, prior_len, keep_partial } => json!({
            "op": "send", "type": types[*ty].name,
            "value": {"decoded_from": prov.bytes.as_ref().map(|b| hex(b)), "spoilers": prov.spoilers},
            "writer": writer_to_json(writer), "prior_len": prior_len, "keep_partial": keep_partial,
        }),
        Event::Move { n } => json!({"op": "move", "n": n}),
        Event::Fault { kind, at, len, val } => json!({"op": "fault", "kind": format!("{kind:?}").to_lowercase(), "at": at, "len": len, "val": val}),
        Event::Recv { ty } => json!({"op": "recv", "type": types[*ty].name}),
        Event::Recheck { k } => json!({"op": "recheck", "k": k}),
    }
}

pub fn event_from_json(v: &Value, types: &[&TypeOps]) -> Option<Event> {
    let ty_of = |name: &str| types.iter().position(|t| t.name == name);
    Some(match v["op"].as_str()? {
        "send" => Event::Send {
            ty: ty_of(v["type"].as_str()?)?,
            prov: Prov {
                bytes: match &v["value"]["decoded_from"] {
                    Value::String(s) => Some(unhex(s)?),
                    _ => None,
                },
                spoilers: v["value"]["spoilers"].as_array()?.iter().filter_map(|x| x.as_u64().map(|y| y as usize)).collect(),
            },
            writer: writer_from_json(&v["writer"])?,
            prior_len: v["prior_len"].as_u64()? as usize,
            keep_partial: v["keep_partial"].as_bool().unwrap_or(false),
        },
        "move" => Event::Move { n: v["n"].as_u64()? as usize },
        "fault" => Event::Fault {
            kind: match v["kind"].as_str()? {
                "truncate" => FaultKind::Truncate,
                "flip" => FaultKind::Flip,
                "dup" => FaultKind::Dup,
                "drop" => FaultKind::Drop,
                _ => FaultKind::Insert,
            },
            at: v["at"].as_u64()? as usize,
            len: v["len"].as_u64()? as usize,
            val: v["val"].as_u64()? as u8,
        },
        "recv" => Event::Recv { ty: ty_of(v["type"].as_str()?)? },
        "recheck" => Event::Recheck { k: v["k"].as_u64()? as usize },
        _ => return None,
    })
}

// ---------------------------------------------------------------- simulation state

#[derive(Default, Clone)]
pub struct Stats {
    pub c: BTreeMap<String, u64>,
    pub distinct: BTreeSet<u64>,
    pub required_panics: BTreeMap<String, u64>,
    pub types_touched: BTreeSet<String>,
}

impl Stats {
    pub fn bump(&mut self, k: &str) {
        *self.c.entry(k.to_string()).or_insert(0) += 1;
    }
    pub fn add(&mut self, k: &str, n: u64) {
        *self.c.entry(k.to_string()).or_insert(0) += n;
    }
    pub fn merge(&mut self, o: &Stats) {
        for (k, v) in &o.c {
            *self.c.entry(k.clone()).or_insert(0) += v;
        }
        self.distinct.extend(o.distinct.iter().copied());
        for (k, v) in &o.required_panics {
            *self.required_panics.entry(k.clone()).or_insert(0) += v;
        }
        self.types_touched.extend(o.types_touched.iter().cloned());
    }
}

pub struct Sim<'a> {
    pub types: Vec<&'a TypeOps>,
    pub pool: Vec<Vec<Prov>>,
    pub tx: Vec<u8>,
    pub rx: Vec<u8>,
    pub cursor: usize,
    pub recv_log: Vec<(usize, Vec<u8>, String)>,
    pub stats: Stats,
    pub fail_streak: usize,
    /// per-event behaviour digests (tier D), recorded when `record` is set
    pub record: bool,
    pub history: Vec<String>,
}

#[derive(Clone, Debug)]
pub struct Violation {
    pub law: &'static str,
    pub ty: String,
    pub module: String,
    pub detail: String,
    pub at_event: usize,
}

pub fn canary(n: usize) -> Vec<u8> {
    (0..n).map(|i| 0xC0u8.wrapping_add((i * 7) as u8)).collect()
}

pub fn recv_digest(o: &RecvOutcome) -> String {
    match o {
        RecvOutcome::Decoded { consumed, remainder_empty, .. } => format!("decoded:{consumed}:{remainder_empty}"),
        RecvOutcome::Failed(e) => format!("failed:{e}"),
        RecvOutcome::RequiredPanic(_) => "required-panic".into(),
        RecvOutcome::Violation(v) => format!("violation:{}", v.law),
    }
}

impl<'a> Sim<'a> {
    pub fn new(types: Vec<&'a TypeOps>, seeds: Vec<Vec<Prov>>) -> Sim<'a> {
        Sim { types, pool: seeds, tx: Vec::new(), rx: Vec::new(), cursor: 0, recv_log: Vec::new(), stats: Stats::default(), fail_streak: 0, record: false, history: Vec::new() }
    }

    pub fn viol(&self, v: LawViolation, ty: usize, at: usize) -> Violation {
        Violation { law: v.law, ty: self.types[ty].name.to_string(), module: self.types[ty].module.to_string(), detail: v.detail, at_event: at }
    }

    /// Execute one event; Err = a law was violated.
    pub fn step(&mut self, e: &Event, idx: usize) -> Result<(), Violation> {
        match e {
            Event::Send { ty, prov, writer, prior_len, keep_partial } => {
                let ops = self.types[*ty];
                let prior: Vec<u8> = if *prior_len <= self.tx.len() { self.tx[self.tx.len() - prior_len..].to_vec() } else { canary(*prior_len) };
                self.stats.bump("send");
                self.stats.bump(&format!("writer.{}", writer.tag()));
                self.stats.types_touched.insert(format!("{}::{}", ops.module, ops.name));
                if !prior.is_empty() {
                    self.stats.bump("send.into_nonempty_buffer");
                }
                if !prov.spoilers.is_empty() {
                    self.stats.bump("send.spoiled_value");
                }
                let outcome = (ops.send)(prov, writer, &prior);
                if self.record {
                    self.history.push(match &outcome {
                        SendOutcome::NoValue => "send:no-value".to_string(),
                        SendOutcome::RequiredPanic(_) => "send:required-panic".to_string(),
                        SendOutcome::Violation(v) => format!("send:violation:{}", v.law),
                        SendOutcome::Sent { appended, ok, err, encoded_len, .. } => format!("send:{}:{}:{:?}:{}", ok, hex(appended), err, encoded_len),
                    });
                }
                match outcome {
                    SendOutcome::NoValue => self.stats.bump("send.no_value"),
                    SendOutcome::RequiredPanic(m) => {
                        self.stats.bump("send.required_method_panic");
                        *self.stats.required_panics.entry(format!("{}::{}: {}", ops.module, ops.name, m.chars().take(80).collect::<String>())).or_insert(0) += 1;
                    }
                    SendOutcome::Violation(v) => return Err(self.viol(v, *ty, idx)),
                    SendOutcome::Sent { appended, ok, encoded_len, boundaries_crossed, len_mismatch, .. } => {
                        if ok {
                            self.stats.bump("send.ok");
                            if len_mismatch {
                                self.stats.bump("byproduct.encoded_len_differs_from_bytes_written(C05)");
                            }
                            if boundaries_crossed > 0 {
                                self.stats.bump("send.chunk_boundary_inside_packet");
                                self.stats.add("send.chunk_boundaries_crossed", boundaries_crossed as u64);
                                self.stats.distinct.insert(stable_hash(&("send", ops.module, ops.name, writer.tag(), stable_hash(writer), appended.len())));
                            }
                            if matches!(writer, WriterKind::SliceExact | WriterKind::LimitVec | WriterKind::Sim { cap: Cap::Exact, .. }) {
                                self.stats.bump("send.exact_capacity");
                            }
                            let _ = encoded_len;
                            self.tx.extend_from_slice(&appended);
                        } else {
                            self.stats.bump("send.encode_error");
                            if !appended.is_empty() {
                                self.stats.bump("send.encode_error_after_partial_write");
                                if *keep_partial {
                                    // the caller's buffer now really holds the partial bytes: corrupted traffic
                                    self.tx.extend_from_slice(&appended);
                                }
                            }
                        }
                    }
                }
            }
            Event::Move { n } => {
                let n = (*n).min(self.tx.len());
                let moved: Vec<u8> = self.tx.drain(..n).collect();
                self.rx.extend_from_slice(&moved);
                self.stats.bump("move");
            }
            Event::Fault { kind, at, len, val } => {
                if self.tx.is_empty() {
                    // nothing in flight: only noise on the line can appear (garbage bytes); this is
                    // also the only way a type that encodes to zero bytes ever sees input
                    if *kind == FaultKind::Insert {
                        let n = (*len).max(1);
                        self.tx.extend((0..n).map(|i| val.wrapping_mul(31).wrapping_add(i as u8)));
                        self.stats.bump("fault.insert");
                    } else {
                        self.stats.bump("fault.skipped_idle");
                    }
                    return Ok(());
                }
                let at = at % self.tx.len();
                let len = (*len).min(self.tx.len() - at).max(1);
                match kind {
                    FaultKind::Truncate => self.tx.truncate(at),
                    FaultKind::Flip => self.tx[at] ^= 1 << (val % 8),
                    FaultKind::Dup => {
                        let seg = self.tx[at..at + len].to_vec();
                        let tail = self.tx.split_off(at);
                        self.tx.extend_from_slice(&seg);
                        self.tx.extend_from_slice(&tail);
                    }
                    FaultKind::Drop => {
                        self.tx.drain(at..at + len);
                    }
                    FaultKind::Insert => {
                        let tail = self.tx.split_off(at);
                        self.tx.extend((0..len).map(|i| val.wrapping_mul(31).wrapping_add(i as u8)));
                        self.tx.extend_from_slice(&tail);
                    }
                }
                self.stats.bump(&format!("fault.{}", format!("{kind:?}").to_lowercase()));
            }
            Event::Recv { ty } => {
                let ops = self.types[*ty];
                // the receive slice is a fresh, exactly-sized allocation
                let s: Vec<u8> = self.rx[self.cursor..].to_vec();
                self.stats.bump("recv");
                self.stats.types_touched.insert(format!("{}::{}", ops.module, ops.name));
                let o = (ops.recv)(&s);
                let dg = recv_digest(&o);
                if self.record {
                    self.history.push(match &o {
                        RecvOutcome::Decoded { debug, .. } => format!("recv:{dg}:{}", debug.as_deref().unwrap_or("")),
                        _ => format!("recv:{dg}"),
                    });
                }
                if self.recv_log.len() < 64 && s.len() <= 2048 {
                    self.recv_log.push((*ty, s.clone(), dg));
                }
                match o {
                    RecvOutcome::Violation(v) => return Err(self.viol(v, *ty, idx)),
                    RecvOutcome::RequiredPanic(m) => {
                        self.stats.bump("recv.required_method_panic");
                        *self.stats.required_panics.entry(format!("{}::{}: {}", ops.module, ops.name, m.chars().take(80).collect::<String>())).or_insert(0) += 1;
                        self.fail_streak += 1;
                    }
                    RecvOutcome::Decoded { consumed, remainder_empty, suffix_ok, .. } => {
                        self.stats.bump("recv.decoded");
                        self.stats.bump(if remainder_empty { "recv.decoded_remainder_empty" } else { "recv.decoded_with_trailing_bytes" });
                        if !suffix_ok {
                            self.stats.bump("byproduct.remainder_not_a_suffix_by_address(C01)");
                        }
                        self.stats.distinct.insert(stable_hash(&("recv", ops.module, ops.name, s.len(), consumed)));
                        let p = Prov { bytes: Some(s[..consumed.min(s.len())].to_vec()), spoilers: vec![] };
                        let pool = &mut self.pool[*ty];
                        if pool.len() < 24 {
                            pool.push(p);
                        } else {
                            let k = (stable_hash(&p) % 24) as usize;
                            pool[k] = p;
                        }
                        self.cursor += consumed.min(s.len());
                        self.fail_streak = 0;
                    }
                    RecvOutcome::Failed(_) => {
                        self.stats.bump("recv.decode_error");
                        self.stats.distinct.insert(stable_hash(&("recv-err", ops.module, ops.name, s.len())));
                        self.fail_streak += 1;
                    }
                }
                // a receiver that cannot make progress on a long backlog resynchronises by one byte
                if self.fail_streak >= 3 && self.rx.len() - self.cursor > 0 {
                    self.cursor += 1;
                    self.fail_streak = 0;
                    self.stats.bump("recv.resync_skip_byte");
                }
            }
            Event::Recheck { k } => {
                if self.recv_log.is_empty() {
                    return Ok(());
                }
                let (ty, bytes, dg) = self.recv_log[k % self.recv_log.len()].clone();
                let ops = self.types[ty];
                self.stats.bump("recheck(D3)");
                let copy = bytes.clone();
                let o = (ops.recv)(&copy);
                if let RecvOutcome::Violation(v) = o {
                    return Err(self.viol(v, ty, idx));
                }
                let dg2 = recv_digest(&o);
                if dg2 != dg {
                    return Err(self.viol(
                        LawViolation { law: "D3", detail: format!("the same input decoded differently later in the run: first '{dg}', now '{dg2}'; input {}", hex(&bytes[..bytes.len().min(48)])) },
                        ty,
                        idx,
                    ));
                }
            }
        }
        Ok(())
    }
}

// ---------------------------------------------------------------- drawing

pub struct Swarm {
    pub writers: Vec<u8>,
    pub faults: Vec<FaultKind>,
    pub spoil_rate: u64,
    pub max_chunk: usize,
}

pub fn draw_swarm(rng: &mut Rng) -> Swarm {
    let mut writers: Vec<u8> = (0..11).filter(|_| rng.below(2) == 0).collect();
    if writers.is_empty() {
        writers.push(rng.below(11) as u8);
    }
    let all = [FaultKind::Truncate, FaultKind::Flip, FaultKind::Dup, FaultKind::Drop, FaultKind::Insert];
    let faults: Vec<FaultKind> = all.iter().filter(|_| rng.below(2) == 0).cloned().collect();
    Swarm { writers, faults, spoil_rate: *rng.pick(&[0u64, 4, 4, 2]), max_chunk: *rng.pick(&[1usize, 2, 3, 5, 8, 64]) }
}

pub fn draw_writer(rng: &mut Rng, sw: &Swarm) -> WriterKind {
    let chunks = |rng: &mut Rng| -> Vec<usize> {
        let n = rng.range(1, 6) as usize;
        (0..n).map(|_| rng.range(1, sw.max_chunk as u64) as usize).collect()
    };
    match *rng.pick(&sw.writers) {
        0 => WriterKind::Vec,
        1 => WriterKind::BytesMut,
        2 => WriterKind::SliceExact,
        3 => WriterKind::SliceSlack(rng.range(1, 9) as usize),
        4 => WriterKind::LimitVec,
        5 => WriterKind::ChainSliceVec(rng.range(0, 12) as usize),
        6 => WriterKind::Sim { chunks: chunks(rng), cap: Cap::Exact },
        7 => WriterKind::Sim { chunks: chunks(rng), cap: Cap::Slack(rng.range(1, 5) as usize) },
        8 => WriterKind::Sim { chunks: chunks(rng), cap: Cap::Ample },
        9 => WriterKind::Chain3Vec,
        _ => WriterKind::Sim { chunks: chunks(rng), cap: Cap::Unbounded },
    }
}

pub fn draw_event(rng: &mut Rng, sim: &Sim, sw: &Swarm) -> Event {
    let nt = sim.types.len() as u64;
    let r = rng.below(100);
    // faults need workload in flight; receives need bytes
    let idle = sim.tx.is_empty() && sim.rx.len() == sim.cursor;
    if r < 38 || (idle && !(r >= 60 && r < 70 && sw.faults.contains(&FaultKind::Insert))) {
        let ty = rng.below(nt) as usize;
        let pool = &sim.pool[ty];
        let mut prov = if pool.is_empty() { Prov { bytes: None, spoilers: vec![] } } else { rng.pick(pool).clone() };
        let ns = sim.types[ty].n_spoilers as u64;
        if ns > 0 && sw.spoil_rate > 0 && rng.below(sw.spoil_rate) == 0 {
            prov.spoilers.push(rng.below(ns) as usize);
            if rng.below(4) == 0 {
                prov.spoilers.push(rng.below(ns) as usize);
            }
        }
        let prior_len = match rng.below(4) {
            0 => 0,
            1 => rng.range(1, 8) as usize,
            2 => sim.tx.len().min(64),
            _ => rng.range(1, 40) as usize,
        };
        Event::Send { ty, prov, writer: draw_writer(rng, sw), prior_len, keep_partial: rng.below(2) == 0 }
    } else if r < 60 {
        let avail = sim.tx.len().max(1) as u64;
        let n = match rng.below(3) {
            0 => rng.range(1, avail.min(4)),
            1 => avail,
            _ => rng.range(1, avail),
        };
        Event::Move { n: n as usize }
    } else if r < 70 && !sw.faults.is_empty() && (!sim.tx.is_empty() || sw.faults.contains(&FaultKind::Insert)) {
        let kind = if sim.tx.is_empty() { FaultKind::Insert } else { rng.pick(&sw.faults).clone() };
        Event::Fault { kind, at: rng.below(sim.tx.len().max(1) as u64) as usize, len: rng.range(1, 6) as usize, val: rng.below(256) as u8 }
    } else if r < 95 {
        Event::Recv { ty: rng.below(nt) as usize }
    } else {
        Event::Recheck { k: rng.below(64) as usize }
    }
}

// ---------------------------------------------------------------- registry and vectors

pub struct World {
    pub reg: Vec<TypeOps>,
    pub by_module: BTreeMap<&'static str, Vec<usize>>,
    /// module -> type name -> packed test vectors
    pub vectors: BTreeMap<String, BTreeMap<String, Vec<Vec<u8>>>>,
}

impl World {
    pub fn new(reg: Vec<TypeOps>, verif: &Path) -> World {
        let mut by_module: BTreeMap<&'static str, Vec<usize>> = BTreeMap::new();
        for (i, t) in reg.iter().enumerate() {
            by_module.entry(t.module).or_default().push(i);
        }
        World { reg, by_module, vectors: load_vectors(verif) }
    }
}

pub fn load_vectors(verif: &Path) -> BTreeMap<String, BTreeMap<String, Vec<Vec<u8>>>> {
    let mut out = BTreeMap::new();
    for (module, file) in [("canonical_le", "le_test_vectors.json"), ("canonical_be", "be_test_vectors.json")] {
        let mut m: BTreeMap<String, Vec<Vec<u8>>> = BTreeMap::new();
        if let Some(v) = std::fs::read_to_string(verif.join("corpus").join(file)).ok().and_then(|s| serde_json::from_str::<Value>(&s).ok()) {
            for p in v.as_array().cloned().unwrap_or_default() {
                let name = p["packet"].as_str().unwrap_or("").to_string();
                for t in p["tests"].as_array().cloned().unwrap_or_default() {
                    if let Some(b) = t["packed"].as_str().and_then(unhex) {
                        m.entry(name.clone()).or_default().push(b.clone());
                        if let Some(child) = t["packet"].as_str() {
                            m.entry(child.to_string()).or_default().push(b);
                        }
                    }
                }
            }
        }
        out.insert(module.to_string(), m);
    }
    out
}

pub fn seeds_for(w: &World, ti: usize, rng: &mut Rng) -> Vec<Prov> {
    let ops = &w.reg[ti];
    let mut v = vec![Prov { bytes: None, spoilers: vec![] }];
    if let Some(m) = w.vectors.get(ops.module) {
        if let Some(list) = m.get(ops.name) {
            for _ in 0..4 {
                v.push(Prov { bytes: Some(rng.pick(list).clone()), spoilers: vec![] });
            }
        } else {
            // types without named vectors (structs, custom fields): try other packets' bytes
            let all: Vec<&Vec<u8>> = m.values().flatten().collect();
            for _ in 0..8 {
                if all.is_empty() {
                    break;
                }
                let b = (*rng.pick(&all)).clone();
                let p = Prov { bytes: Some(b), spoilers: vec![] };
                if (ops.has_value)(&p) {
                    v.push(p);
                }
            }
        }
    }
    // values born from arbitrary bytes
    for _ in 0..6 {
        let n = rng.range(0, 24) as usize;
        let b: Vec<u8> = match rng.below(3) {
            0 => vec![0; n],
            1 => (0..n).map(|_| rng.below(4) as u8).collect(),
            _ => (0..n).map(|_| rng.below(256) as u8).collect(),
        };
        let p = Prov { bytes: Some(b), spoilers: vec![] };
        if (ops.has_value)(&p) {
            v.push(p);
        }
    }
    v
}

// ---------------------------------------------------------------- one run

pub struct RunResult {
    pub stats: Stats,
    pub violation: Option<(Violation, Value)>,
    pub digest: u64,
    pub events: usize,
    pub sample: Option<Value>,
}

pub fn run_events(types: Vec<&TypeOps>, seeds: Vec<Vec<Prov>>, events: &[Event]) -> (Option<Violation>, Stats) {
    let mut sim = Sim::new(types, seeds);
    for (i, e) in events.iter().enumerate() {
        if let Err(v) = sim.step(e, i) {
            return (Some(v), sim.stats);
        }
    }
    (None, sim.stats)
}

pub fn replay_doc(seed: u64, run: u64, module: &str, types: &[&TypeOps], seeds: &[Vec<Prov>], events: &[Event], v: &Violation, min_steps: u32, original_len: usize) -> Value {
    json!({
        "property": "C18", "seed": seed, "run": run, "module": module,
        "types": types.iter().map(|t| t.name).collect::<Vec<_>>(),
        "seed_values": seeds.iter().map(|ps| ps.iter().map(|p| json!({"decoded_from": p.bytes.as_ref().map(|b| hex(b)), "spoilers": p.spoilers})).collect::<Vec<_>>()).collect::<Vec<_>>(),
        "events": events.iter().map(|e| event_to_json(e, types)).collect::<Vec<_>>(),
        "violation": {"law": v.law, "type": v.ty, "detail": v.detail, "at_event": v.at_event},
        "minimisation_steps": min_steps, "original_event_count": original_len,
    })
}

pub fn minimise(types: &[&TypeOps], seeds: &[Vec<Prov>], events: &[Event], v: &Violation) -> (Vec<Event>, Violation, u32) {
    let mut best: Vec<Event> = events[..=v.at_event.min(events.len() - 1)].to_vec();
    let mut best_v = v.clone();
    let mut steps = 0u32;
    let same = |cand: &[Event]| -> Option<Violation> {
        let (vv, _) = run_events(types.to_vec(), seeds.to_vec(), cand);
        vv.filter(|x| x.law == v.law && x.ty == v.ty)
    };
    // drop events, last to first
    let mut i = best.len();
    while i > 0 {
        i -= 1;
        if best.len() <= 1 {
            break;
        }
        let mut cand = best.clone();
        cand.remove(i);
        if let Some(vv) = same(&cand) {
            best = cand;
            best_v = vv;
            steps += 1;
        }
    }
    // simplify what remains
    for i in 0..best.len() {
        let mut cand = best.clone();
        if let Event::Send { prov, writer, prior_len, .. } = &mut cand[i] {
            let mut tries: Vec<Event> = Vec::new();
            let base = best[i].clone();
            if let Event::Send { ty, keep_partial, .. } = base {
                if !prov.spoilers.is_empty() {
                    tries.push(Event::Send { ty, prov: Prov { bytes: prov.bytes.clone(), spoilers: vec![] }, writer: writer.clone(), prior_len: *prior_len, keep_partial });
                }
                if *prior_len > 0 {
                    tries.push(Event::Send { ty, prov: prov.clone(), writer: writer.clone(), prior_len: 0, keep_partial });
                }
                if let WriterKind::Sim { chunks, cap } = writer {
                    if chunks.len() > 1 || chunks[0] > 1 {
                        tries.push(Event::Send { ty, prov: prov.clone(), writer: WriterKind::Sim { chunks: vec![1 << 20], cap: cap.clone() }, prior_len: *prior_len, keep_partial });
                    }
                }
                if !matches!(writer, WriterKind::Vec) {
                    tries.push(Event::Send { ty, prov: prov.clone(), writer: WriterKind::Vec, prior_len: *prior_len, keep_partial });
                }
                if prov.bytes.is_some() {
                    tries.push(Event::Send { ty, prov: Prov { bytes: None, spoilers: prov.spoilers.clone() }, writer: writer.clone(), prior_len: *prior_len, keep_partial });
                }
            }
            for t in tries {
                let mut c2 = best.clone();
                c2[i] = t;
                if let Some(vv) = same(&c2) {
                    best = c2;
                    best_v = vv;
                    steps += 1;
                }
            }
        }
    }
    (best, best_v, steps)
}

pub fn run_one(w: &World, seed: u64, run: u64) -> RunResult {
    run_one_opts(w, seed, run, true)
}

/// `minimise = false` inside a marathon (a block of runs sharing one thread): re-executing event
/// lists there would itself change the thread's history.
pub fn run_one_opts(w: &World, seed: u64, run: u64, minimise_it: bool) -> RunResult {
    let mut rng = Rng::for_run(seed, TAG_B, run);
    let modules: Vec<&&'static str> = w.by_module.keys().collect();
    let module: &'static str = **rng.pick(&modules);
    let all = &w.by_module[module];
    let nt = rng.range(1, 6.min(all.len() as u64)) as usize;
    let mut idx: Vec<usize> = all.clone();
    rng.shuffle(&mut idx);
    idx.truncate(nt);
    let types: Vec<&TypeOps> = idx.iter().map(|i| &w.reg[*i]).collect();
    let seeds: Vec<Vec<Prov>> = idx.iter().map(|i| seeds_for(w, *i, &mut rng)).collect();
    let sw = draw_swarm(&mut rng);
    let n_events = rng.range(8, MAX_EVENTS as u64) as usize;
    let mut sim = Sim::new(types.clone(), seeds.clone());
    let mut events: Vec<Event> = Vec::with_capacity(n_events);
    let mut violation = None;
    for i in 0..n_events {
        let e = draw_event(&mut rng, &sim, &sw);
        events.push(e.clone());
        if let Err(v) = sim.step(&e, i) {
            violation = Some(v);
            break;
        }
    }
    let digest = stable_hash(&(run, module, format!("{:?}", events), format!("{:?}", sim.stats.c), violation.as_ref().map(|v| (v.law, v.detail.clone()))));
    let sample = if run % 4001 == 7 {
        Some(json!({"run": run, "module": module, "types": types.iter().map(|t| t.name).collect::<Vec<_>>(), "events": events.iter().take(12).map(|e| event_to_json(e, &types)).collect::<Vec<_>>(), "event_count": events.len(), "verdict": if violation.is_some() { "violation" } else { "held" }}))
    } else {
        None
    };
    let violation = violation.map(|v| {
        if minimise_it {
            let (me, mv, steps) = minimise(&types, &seeds, &events, &v);
            let doc = replay_doc(seed, run, module, &types, &seeds, &me, &mv, steps, events.len());
            (mv, doc)
        } else {
            let doc = replay_doc(seed, run, module, &types, &seeds, &events, &v, 0, events.len());
            (v, doc)
        }
    });
    RunResult { stats: sim.stats, violation, digest, events: events.len(), sample }
}

