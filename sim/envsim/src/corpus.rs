//! Corpus: the static descriptions under /verif/corpus plus seeded "sibling" derivatives
//! (same declaration identifiers, different bodies) and the leaf-declaration analysis
//! needed by the exclusion oracle (I5).

use serde_json::Value;
use simcore::Rng;
use std::collections::{BTreeMap, BTreeSet};
use std::path::Path;

#[derive(Clone, Copy, Debug, PartialEq, Eq, PartialOrd, Ord, Hash)]
pub enum Backend {
    Json,
    Rust,
    Python,
    Cxx,
    Java,
}

pub const BACKENDS: [Backend; 5] = [Backend::Json, Backend::Rust, Backend::Python, Backend::Cxx, Backend::Java];

impl Backend {
    pub fn name(self) -> &'static str {
        match self {
            Backend::Json => "json",
            Backend::Rust => "rust",
            Backend::Python => "python",
            Backend::Cxx => "cxx",
            Backend::Java => "java",
        }
    }
    pub fn from_name(s: &str) -> Option<Backend> {
        BACKENDS.iter().copied().find(|b| b.name() == s)
    }
}

#[derive(Clone, Debug, Default)]
pub struct Opts {
    pub exclude: Vec<String>,
    pub custom_field: Vec<String>,
}

#[derive(Clone, Debug)]
pub struct Entry {
    pub id: String,
    pub text: String,
    pub origin: String,
    pub opts: BTreeMap<String, Opts>,
}

impl Entry {
    pub fn opts_for(&self, b: Backend) -> Opts {
        self.opts.get(b.name()).cloned().unwrap_or_default()
    }
}

pub struct Corpus {
    pub entries: Vec<Entry>,
}

impl Corpus {
    pub fn load(dir: &Path) -> Result<Corpus, String> {
        let idx = std::fs::read_to_string(dir.join("index.json")).map_err(|e| format!("corpus index: {e}"))?;
        let v: Value = serde_json::from_str(&idx).map_err(|e| format!("corpus index: {e}"))?;
        let mut entries = Vec::new();
        for e in v["entries"].as_array().ok_or("corpus index: no entries")? {
            let id = e["id"].as_str().unwrap().to_string();
            let path = dir.join(e["path"].as_str().unwrap());
            let text = std::fs::read_to_string(&path).map_err(|err| format!("{}: {err}", path.display()))?;
            let mut opts = BTreeMap::new();
            if let Some(o) = e["opts"].as_object() {
                for (k, ov) in o {
                    let list = |key: &str| -> Vec<String> {
                        ov[key].as_array().map(|a| a.iter().map(|s| s.as_str().unwrap().to_string()).collect()).unwrap_or_default()
                    };
                    opts.insert(k.clone(), Opts { exclude: list("exclude"), custom_field: list("custom_field") });
                }
            }
            entries.push(Entry { id, text, origin: e["origin"].as_str().unwrap_or("").to_string(), opts });
        }
        if entries.is_empty() {
            return Err("corpus is empty".into());
        }
        Ok(Corpus { entries })
    }
}

/// Sibling derivation: keeps every declaration identifier, changes bodies. The result
/// need not analyse any more (its "output" is then diagnostics).
#[derive(Clone, Debug, PartialEq, Eq)]
pub enum Sibling {
    FlipEndian,
    /// swap byte-aligned scalar widths: `: 8` <-> `: 16` at the k-th .. occurrences chosen by mask
    SwapWidths(u64),
    /// add a scalar field to the first packet/struct body (index chosen by n)
    AddField(u64),
    /// remove the n-th `name: <int>,` scalar field line
    DropField(u64),
    /// reorder the top-level declarations (the endianness declaration stays first)
    PermuteDecls(u64),
    /// whole-word rename of the n-th scalar field identifier to the k-th "suspicious" identifier
    /// (names generators use for their own temporaries)
    RenameField(u64, u64),
    /// insert `///` and `//` comments in front of and inside declarations
    AddComments(u64),
    /// exchange the widths of two scalar fields that have different widths (`a: 8 … b: 16` →
    /// `a: 16 … b: 8`): another description of exactly the same length under the same name
    SwapTwoWidths(u64),
    /// give the arrays without a count (`[]`) chosen by the mask a static count (`[2]`): the same
    /// declarations at the same positions of the file, with other size properties
    FixArrays(u64),
}

/// Identifiers that generated code uses for its own locals / helpers in some backend.
pub const SUSPICIOUS_IDENTS: [&str; 24] = [
    "chunk", "buf", "span", "value", "payload", "bytes", "head", "size", "count", "len", "packet", "data", "fields", "result", "element",
    "array_size", "child", "cond", "offset", "builder", "parent", "id", "tag", "body_size",
];

impl Sibling {
    pub fn draw(rng: &mut Rng) -> Sibling {
        match rng.below(10) {
            9 => Sibling::FixArrays(rng.next() | rng.next()),
            8 => Sibling::SwapTwoWidths(rng.next()),
            0 => Sibling::FlipEndian,
            1 => Sibling::SwapWidths(rng.next()),
            2 => Sibling::AddField(rng.below(8)),
            3 => Sibling::DropField(rng.below(8)),
            4 | 5 => Sibling::PermuteDecls(rng.next()),
            6 => Sibling::RenameField(rng.below(12), rng.below(SUSPICIOUS_IDENTS.len() as u64)),
            _ => Sibling::AddComments(rng.next()),
        }
    }
    pub fn describe(&self) -> String {
        format!("{:?}", self)
    }
    pub fn to_json(&self) -> Value {
        match self {
            Sibling::FlipEndian => serde_json::json!({"kind": "flip_endian"}),
            Sibling::SwapWidths(m) => serde_json::json!({"kind": "swap_widths", "mask": m.to_string()}),
            Sibling::AddField(n) => serde_json::json!({"kind": "add_field", "n": n}),
            Sibling::DropField(n) => serde_json::json!({"kind": "drop_field", "n": n}),
            Sibling::PermuteDecls(x) => serde_json::json!({"kind": "permute_decls", "seed": x.to_string()}),
            Sibling::RenameField(n, k) => serde_json::json!({"kind": "rename_field", "n": n, "k": k}),
            Sibling::AddComments(x) => serde_json::json!({"kind": "add_comments", "seed": x.to_string()}),
            Sibling::SwapTwoWidths(x) => serde_json::json!({"kind": "swap_two_widths", "seed": x.to_string()}),
            Sibling::FixArrays(m) => serde_json::json!({"kind": "fix_arrays", "mask": m.to_string()}),
        }
    }
    pub fn from_json(v: &Value) -> Option<Sibling> {
        match v["kind"].as_str()? {
            "flip_endian" => Some(Sibling::FlipEndian),
            "swap_widths" => Some(Sibling::SwapWidths(v["mask"].as_str()?.parse().ok()?)),
            "add_field" => Some(Sibling::AddField(v["n"].as_u64()?)),
            "drop_field" => Some(Sibling::DropField(v["n"].as_u64()?)),
            "permute_decls" => Some(Sibling::PermuteDecls(v["seed"].as_str()?.parse().ok()?)),
            "rename_field" => Some(Sibling::RenameField(v["n"].as_u64()?, v["k"].as_u64()?)),
            "add_comments" => Some(Sibling::AddComments(v["seed"].as_str()?.parse().ok()?)),
            "swap_two_widths" => Some(Sibling::SwapTwoWidths(v["seed"].as_str()?.parse().ok()?)),
            "fix_arrays" => Some(Sibling::FixArrays(v["mask"].as_str()?.parse().ok()?)),
            _ => None,
        }
    }

    pub fn apply(&self, text: &str) -> String {
        match self {
            Sibling::FixArrays(mask) => {
                let mut out = String::with_capacity(text.len() + 16);
                let mut k = 0u32;
                let mut rest = text;
                while let Some(p) = rest.find("[]") {
                    out.push_str(&rest[..p]);
                    out.push_str(if (mask >> (k % 64)) & 1 == 1 { "[2]" } else { "[]" });
                    k += 1;
                    rest = &rest[p + 2..];
                }
                out.push_str(rest);
                out
            }
            Sibling::SwapTwoWidths(seed) => {
                // occurrences of `: <digits>` followed by , } or whitespace
                let b = text.as_bytes();
                let mut occ: Vec<(usize, usize)> = Vec::new(); // (start, end) of the digits
                let mut i = 0;
                while i < b.len() {
                    if b[i] == b':' {
                        let mut j = i + 1;
                        while j < b.len() && b[j] == b' ' {
                            j += 1;
                        }
                        let s0 = j;
                        while j < b.len() && b[j].is_ascii_digit() {
                            j += 1;
                        }
                        if j > s0 && (j >= b.len() || matches!(b[j], b',' | b' ' | b'\n' | b'}' | b'\r')) {
                            occ.push((s0, j));
                        }
                        i = j.max(i + 1);
                    } else {
                        i += 1;
                    }
                }
                if occ.len() < 2 || !text.is_ascii() {
                    return text.to_string();
                }
                let mut rng = Rng::new(*seed);
                for _ in 0..32 {
                    let a = occ[rng.below(occ.len() as u64) as usize];
                    let c = occ[rng.below(occ.len() as u64) as usize];
                    let (x, y) = if a.0 < c.0 { (a, c) } else { (c, a) };
                    if x.0 == y.0 || text[x.0..x.1] == text[y.0..y.1] {
                        continue;
                    }
                    return format!("{}{}{}{}{}", &text[..x.0], &text[y.0..y.1], &text[x.1..y.0], &text[x.0..x.1], &text[y.1..]);
                }
                text.to_string()
            }
            Sibling::PermuteDecls(seed) => {
                let chunks = split_decls(text);
                if chunks.len() < 3 {
                    return text.to_string();
                }
                // chunk 0 carries the endianness declaration (plus the first declaration)
                let first = chunks[0].clone();
                let (head, first_decl) = match first.find("_packets") {
                    Some(p) => (first[..p + 8].to_string(), first[p + 8..].to_string()),
                    None => (String::new(), first),
                };
                let mut rest: Vec<String> = std::iter::once(first_decl).chain(chunks[1..].iter().cloned()).collect();
                // keep a trailing non-declaration remainder (comments) at the end
                let tail = if rest.last().map(|c| !c.contains('{')).unwrap_or(false) { rest.pop() } else { None };
                let mut rng = Rng::new(*seed);
                rng.shuffle(&mut rest);
                let mut out = head;
                out.push('\n');
                for c in rest {
                    out.push_str(&c);
                    out.push('\n');
                }
                if let Some(t) = tail {
                    out.push_str(&t);
                }
                out
            }
            Sibling::RenameField(n, k) => {
                // n-th `<ident>: <digits>` scalar field
                let mut found: Vec<String> = Vec::new();
                for line in text.lines() {
                    for part in line.split(',') {
                        let t = part.trim().trim_start_matches('{').trim();
                        let mut it = t.splitn(2, ':');
                        if let (Some(a), Some(b)) = (it.next(), it.next()) {
                            let a = a.trim();
                            let b = b.trim().trim_end_matches('}').trim();
                            if !a.is_empty()
                                && a.chars().all(|c| c.is_ascii_alphanumeric() || c == '_')
                                && a.chars().next().map(|c| c.is_ascii_lowercase()).unwrap_or(false)
                                && !b.is_empty()
                                && b.chars().all(|c| c.is_ascii_digit())
                                && !found.iter().any(|f| f == a)
                            {
                                found.push(a.to_string());
                            }
                        }
                    }
                }
                if found.is_empty() {
                    return text.to_string();
                }
                let old = &found[(*n as usize) % found.len()];
                let new = SUSPICIOUS_IDENTS[(*k as usize) % SUSPICIOUS_IDENTS.len()];
                replace_word(text, old, new)
            }
            Sibling::AddComments(seed) => {
                let mut rng = Rng::new(*seed);
                let mut out = String::new();
                for (i, line) in text.split_inclusive('\n').enumerate() {
                    let t = line.trim_start();
                    let opens = t.starts_with("packet ") || t.starts_with("struct ") || t.starts_with("enum ") || t.starts_with("group ");
                    if opens && rng.below(2) == 0 {
                        out.push_str(&format!("/// documentation of the declaration at line {i} — naïve café, 日本語\n/// second line\n"));
                    }
                    out.push_str(line);
                    if opens && line.trim_end().ends_with('{') && rng.below(2) == 0 {
                        out.push_str(&format!("    /// inner documentation {i}\n    // plain comment “ünïcödé”\n"));
                    }
                }
                out
            }
            Sibling::FlipEndian => {
                if text.contains("little_endian_packets") {
                    text.replacen("little_endian_packets", "big_endian_packets", 1)
                } else {
                    text.replacen("big_endian_packets", "little_endian_packets", 1)
                }
            }
            Sibling::SwapWidths(mask) => {
                // token-level: "<ident>: 8" / ": 16" followed by , or whitespace or }
                let bytes = text.as_bytes();
                let mut out = String::with_capacity(text.len() + 16);
                let mut i = 0;
                let mut k = 0u32;
                while i < bytes.len() {
                    if bytes[i] == b':' {
                        // parse following spaces + number
                        let mut j = i + 1;
                        while j < bytes.len() && bytes[j] == b' ' {
                            j += 1;
                        }
                        let s = j;
                        while j < bytes.len() && bytes[j].is_ascii_digit() {
                            j += 1;
                        }
                        let num = &text[s..j];
                        let term_ok = j >= bytes.len() || matches!(bytes[j], b',' | b' ' | b'\n' | b'}' | b'\r');
                        if term_ok && (num == "8" || num == "16") {
                            let flip = (mask >> (k % 64)) & 1 == 1;
                            k += 1;
                            if flip {
                                out.push_str(&text[i..s]);
                                out.push_str(if num == "8" { "16" } else { "8" });
                                i = j;
                                continue;
                            }
                        }
                    }
                    out.push(bytes[i] as char);
                    i += 1;
                }
                // text may contain non-ASCII in comments: fall back to original on mismatch
                if text.is_ascii() {
                    out
                } else {
                    text.to_string()
                }
            }
            Sibling::AddField(n) => {
                // insert `verif_extra_field: 8,` after the n-th "{" that opens a packet/struct body
                let mut count = 0u64;
                let mut pos = None;
                for (idx, line) in text.match_indices('{') {
                    let _ = line;
                    let before = &text[..idx];
                    let line_start = before.rfind('\n').map(|p| p + 1).unwrap_or(0);
                    let head = before[line_start..].trim_start();
                    if head.starts_with("packet ") || head.starts_with("struct ") {
                        if count == *n {
                            pos = Some(idx + 1);
                            break;
                        }
                        count += 1;
                    }
                }
                match pos {
                    Some(p) => format!("{} verif_extra_field: 8, {}", &text[..p], &text[p..]),
                    None => format!("{}\n// sibling\n", text),
                }
            }
            Sibling::DropField(n) => {
                let mut count = 0u64;
                let mut out = String::new();
                let mut dropped = false;
                for line in text.split_inclusive('\n') {
                    let t = line.trim();
                    let is_scalar = t.ends_with(',')
                        && t.split(':').count() == 2
                        && t.split(':').nth(1).map(|r| r.trim().trim_end_matches(',').trim().chars().all(|c| c.is_ascii_digit()) && !r.trim().trim_end_matches(',').trim().is_empty()).unwrap_or(false)
                        && t.chars().next().map(|c| c.is_ascii_alphabetic()).unwrap_or(false);
                    if is_scalar && !dropped {
                        if count == *n {
                            dropped = true;
                            continue;
                        }
                        count += 1;
                    }
                    out.push_str(line);
                }
                out
            }
        }
    }
}

/// Split a PDL text into top-level chunks (one per declaration) by brace depth.
pub fn split_decls(text: &str) -> Vec<String> {
    let mut out = Vec::new();
    let mut depth = 0i32;
    let mut cur = String::new();
    let mut in_line_comment = false;
    let mut prev = '\0';
    for ch in text.chars() {
        cur.push(ch);
        if in_line_comment {
            if ch == '\n' {
                in_line_comment = false;
            }
            prev = ch;
            continue;
        }
        match ch {
            '/' if prev == '/' => in_line_comment = true,
            '{' => depth += 1,
            '}' => {
                depth -= 1;
                if depth == 0 {
                    out.push(std::mem::take(&mut cur));
                }
            }
            _ => {}
        }
        prev = ch;
    }
    if !cur.trim().is_empty() {
        out.push(cur);
    }
    out
}

pub fn replace_word(text: &str, old: &str, new: &str) -> String {
    let b = text.as_bytes();
    let mut out = String::with_capacity(text.len());
    let mut i = 0;
    let is_w = |c: u8| c.is_ascii_alphanumeric() || c == b'_';
    while i < b.len() {
        if text[i..].starts_with(old) && (i == 0 || !is_w(b[i - 1])) && (i + old.len() >= b.len() || !is_w(b[i + old.len()])) {
            out.push_str(new);
            i += old.len();
        } else {
            let ch = text[i..].chars().next().unwrap();
            out.push(ch);
            i += ch.len_utf8();
        }
    }
    out
}

/// Declaration graph taken from `pdlc --output-format json` output (or json::generate).
#[derive(Clone, Debug, Default)]
pub struct DeclGraph {
    pub ids: Vec<String>,
    pub parent: BTreeMap<String, String>,
    pub referenced: BTreeSet<String>,
    pub has_child: BTreeSet<String>,
}

impl DeclGraph {
    pub fn from_json(v: &Value) -> DeclGraph {
        let mut g = DeclGraph::default();
        let decls = match v["declarations"].as_array() {
            Some(d) => d,
            None => return g,
        };
        for d in decls {
            if let Some(id) = d["id"].as_str() {
                g.ids.push(id.to_string());
                if let Some(p) = d["parent_id"].as_str() {
                    g.parent.insert(id.to_string(), p.to_string());
                    g.has_child.insert(p.to_string());
                }
            }
            // test declarations and the like reference a type at declaration level
            if d["id"].is_null() {
                if let Some(t) = d["type_id"].as_str() {
                    g.referenced.insert(t.to_string());
                }
            }
            if let Some(fields) = d["fields"].as_array() {
                for f in fields {
                    collect_refs(f, &mut g.referenced);
                }
            }
        }
        g
    }

    /// Leaf declarations: unreferenced by any field (type_id / group_id) and childless.
    pub fn leaves(&self) -> Vec<String> {
        self.ids.iter().filter(|id| !self.referenced.contains(*id) && !self.has_child.contains(*id)).cloned().collect()
    }

    fn root_of(&self, id: &str) -> String {
        let mut cur = id.to_string();
        let mut guard = 0;
        while let Some(p) = self.parent.get(&cur) {
            cur = p.clone();
            guard += 1;
            if guard > 1000 {
                break;
            }
        }
        cur
    }

    /// Inheritance family of a declaration: every declaration sharing its root ancestor.
    pub fn family(&self, id: &str) -> BTreeSet<String> {
        let root = self.root_of(id);
        self.ids.iter().filter(|x| self.root_of(x) == root).cloned().collect()
    }
}

fn collect_refs(f: &Value, out: &mut BTreeSet<String>) {
    for key in ["type_id", "group_id", "enum_id"] {
        if let Some(t) = f[key].as_str() {
            out.insert(t.to_string());
        }
    }
}
