//! Oracle I5 (exclusion): split a backend's output into top-level items and compare the
//! items that cannot legitimately change when a set E of leaf declarations is excluded.
//!
//! Sound by construction: an item is compared only if its normalised text mentions no
//! declaration of E's inheritance families (case-insensitive, underscores ignored, so
//! that every backend's naming convention — `FooBuilder`, `FooView`, `CKind6Beta` — is
//! covered by plain substring search).

use crate::corpus::Backend;
use std::collections::{BTreeMap, BTreeSet};

/// A top-level item of a backend's output. `owners`: the identifiers the item is *about* (the
/// type an `impl` is for, the class a `class` statement defines, the `id` of a JSON declaration),
/// when they can be told; they decide relatedness before mere mentions do.
#[derive(Clone, Debug)]
pub struct Item {
    pub text: String,
    pub owners: Option<Vec<String>>,
}

pub fn norm(s: &str) -> String {
    s.chars().filter(|c| *c != '_').flat_map(|c| c.to_lowercase()).collect()
}

/// Column-0 blank-line structure splitter for Python / C++ / JSON-free text.
fn header_owners(item: &str) -> Option<Vec<String>> {
    // first line that is not a decorator / comment / template line
    let line = item.lines().find(|l| {
        let t = l.trim_start();
        !t.is_empty() && !t.starts_with('@') && !t.starts_with('#') && !t.starts_with("//") && !t.starts_with("template")
    })?;
    let mut toks: Vec<String> = Vec::new();
    let mut cur = String::new();
    for ch in line.chars() {
        if ch.is_ascii_alphanumeric() || ch == '_' {
            cur.push(ch);
        } else {
            if !cur.is_empty() {
                toks.push(std::mem::take(&mut cur));
            }
            // stop at the start of a base-class list, parameter list or body
            if ch == '(' || ch == ':' || ch == '{' || ch == '=' {
                break;
            }
        }
    }
    if !cur.is_empty() {
        toks.push(cur);
    }
    let kw = ["class", "struct", "enum", "def", "inline", "static", "constexpr", "public", "final", "bool", "std", "string", "using", "namespace", "typedef", "const", "void", "uint8_t", "uint16_t", "uint32_t", "uint64_t", "size_t", "int"];
    let owners: Vec<String> = toks.into_iter().filter(|t| !kw.contains(&t.as_str()) && !t.chars().next().map(|c| c.is_ascii_digit()).unwrap_or(true)).collect();
    if owners.is_empty() {
        None
    } else {
        Some(owners)
    }
}

fn split_text(text: &str) -> Vec<Item> {
    let mut out = Vec::new();
    for t in split_text_raw(text) {
        // `from M import A, B`: one item per imported name, owned by that name alone — where a name is
        // imported from must not depend on which other names are imported (or excluded)
        if let Some((module, names)) = t.strip_prefix("from ").and_then(|r| r.split_once(" import ")) {
            if !t.contains('\n') && !names.contains('(') && !module.contains(' ') {
                for n in names.split(',').map(|n| n.trim()).filter(|n| !n.is_empty()) {
                    out.push(Item { owners: Some(vec![n.to_string()]), text: format!("from {module} import {n}") });
                }
                continue;
            }
        }
        out.push(Item { owners: header_owners(&t), text: t });
    }
    out
}

fn split_text_raw(text: &str) -> Vec<String> {
    let mut items: Vec<String> = Vec::new();
    let mut cur = String::new();
    let mut prev_blank = true;
    for line in text.split_inclusive('\n') {
        let blank = line.trim().is_empty();
        let col0 = !blank && !line.starts_with(' ') && !line.starts_with('\t');
        let closer = line.starts_with('}') || line.starts_with(')') || line.starts_with(']');
        // `namespace a::b {` and its `}  // a::b` wrap the whole file (C++ `--namespace`): items of their own,
        // not part of the first and last declaration
        let ns_open = line.starts_with("namespace ") && line.trim_end().ends_with('{');
        let ns_close = line.starts_with("}  // ") && !line.contains(';');
        if ns_open || ns_close {
            if !cur.trim().is_empty() {
                items.push(std::mem::take(&mut cur));
            }
            items.push(line.to_string());
            prev_blank = true;
            continue;
        }
        // a file header made of `#` comment lines ends where the imports begin, blank line or not (the blank
        // line after the python header belongs to the custom-type import, which may be excluded)
        let header_ends = col0
            && (line.starts_with("from ") || line.starts_with("import "))
            && !cur.trim().is_empty()
            && cur.lines().all(|l| l.starts_with('#') || l.trim().is_empty());
        if (col0 && prev_blank && !closer && !cur.trim().is_empty()) || header_ends {
            items.push(std::mem::take(&mut cur));
        }
        cur.push_str(line);
        prev_blank = blank;
    }
    if !cur.trim().is_empty() {
        items.push(cur);
    }
    // a chunk made only of column-0 one-liners (forward declarations, imports) is split per line
    let mut out = Vec::new();
    for it in items {
        let lines: Vec<&str> = it.lines().filter(|l| !l.trim().is_empty()).collect();
        let all_col0 = lines.len() > 1
            && lines.iter().all(|l| !l.starts_with(' ') && !l.starts_with('\t') && (l.ends_with(';') || l.starts_with("import ") || l.starts_with("from ") || l.starts_with("#include")));
        if all_col0 {
            for l in lines {
                out.push(l.to_string());
            }
        } else {
            out.push(it.trim_matches(|c: char| c == '\n' || c == '\r').trim_end().to_string());
        }
    }
    out
}

fn type_idents(t: &syn::Type, out: &mut Vec<String>) {
    match t {
        syn::Type::Path(p) => {
            for seg in &p.path.segments {
                out.push(seg.ident.to_string());
                if let syn::PathArguments::AngleBracketed(a) = &seg.arguments {
                    for arg in &a.args {
                        if let syn::GenericArgument::Type(t2) = arg {
                            type_idents(t2, out);
                        }
                    }
                }
            }
        }
        syn::Type::Reference(r) => type_idents(&r.elem, out),
        _ => {}
    }
}

fn rust_owners(it: &syn::Item) -> Option<Vec<String>> {
    let mut o = Vec::new();
    match it {
        syn::Item::Struct(s) => o.push(s.ident.to_string()),
        syn::Item::Enum(e) => o.push(e.ident.to_string()),
        syn::Item::Type(t) => o.push(t.ident.to_string()),
        syn::Item::Impl(i) => {
            type_idents(&i.self_ty, &mut o);
            if let Some((_, path, _)) = &i.trait_ {
                // `impl TryFrom<&A> for B`, `impl From<A> for u8`: the argument types are owners too
                for seg in &path.segments {
                    if let syn::PathArguments::AngleBracketed(a) = &seg.arguments {
                        for arg in &a.args {
                            if let syn::GenericArgument::Type(t2) = arg {
                                type_idents(t2, &mut o);
                            }
                        }
                    }
                }
            }
        }
        _ => return None,
    }
    if o.is_empty() {
        None
    } else {
        Some(o)
    }
}

fn split_rust(text: &str) -> Option<Vec<Item>> {
    use quote::ToTokens;
    let file = syn::parse_file(text).ok()?;
    let mut v: Vec<Item> = file.attrs.iter().map(|a| Item { text: a.to_token_stream().to_string(), owners: None }).collect();
    for it in file.items {
        v.push(Item { owners: rust_owners(&it), text: it.to_token_stream().to_string() });
    }
    Some(v)
}

fn split_json(text: &str) -> Option<Vec<Item>> {
    let v: serde_json::Value = serde_json::from_str(text).ok()?;
    let mut out = Vec::new();
    for (k, x) in v.as_object()? {
        if k == "declarations" {
            for d in x.as_array()? {
                out.push(Item { owners: d["id"].as_str().map(|i| vec![i.to_string()]), text: serde_json::to_string(d).ok()? });
            }
        } else {
            out.push(Item { owners: None, text: format!("{}:{}", k, serde_json::to_string(x).ok()?) });
        }
    }
    Some(out)
}

pub fn split_items(backend: Backend, bytes: &[u8]) -> Option<Vec<Item>> {
    let text = std::str::from_utf8(bytes).ok()?;
    match backend {
        Backend::Rust => split_rust(text),
        Backend::Json => split_json(text),
        Backend::Python | Backend::Cxx => Some(split_text(text)),
        Backend::Java => None, // compared per file, see compare_files
    }
}

/// Relatedness of an item to the excluded declarations' inheritance families, decided per
/// identifier token: a token is attributed to the LONGEST declaration name (of the whole
/// file, normalised) it contains; it is related when that name belongs to a family (ties
/// between a family and a non-family name of equal length count as related). So
/// `StatusReportView` belongs to `StatusReport`, not to an excluded `Status`, while
/// `StatusBuilder`, `IsValidStatus` and `status` do belong to `Status`.
pub struct Relation {
    /// (normalised declaration name, is in a family of E)
    names: Vec<(String, bool)>,
    cache: std::collections::HashMap<String, bool>,
}

impl Relation {
    pub fn new(all_decls: &[String], family: &BTreeSet<String>) -> Relation {
        let mut names: Vec<(String, bool)> = all_decls.iter().map(|d| (norm(d), family.contains(d))).filter(|(n, _)| !n.is_empty()).collect();
        // family members that are not (or no longer) in the declaration list still count
        for f in family {
            if !all_decls.contains(f) {
                names.push((norm(f), true));
            }
        }
        Relation { names, cache: std::collections::HashMap::new() }
    }

    /// Some(true/false): the token is attributed to a declaration inside/outside the families;
    /// None: it contains no declaration name.
    fn attribute(&self, tok: &str) -> Option<bool> {
        let t = norm(tok);
        let cands: Vec<&(String, bool)> = self.names.iter().filter(|(n, _)| t.contains(n.as_str())).collect();
        if cands.is_empty() {
            return None;
        }
        // ambiguity: one candidate looks like a name a generator derives from another candidate
        // (`LinkChild` the packet vs. the child enum of `Link`): then any family member decides
        const AFFIXES: [&str; 14] = ["child", "builder", "view", "data", "text", "packet", "parent", "payload", "tag", "type", "unknown", "isvalid", "is", "default"];
        let ambiguous = cands.iter().any(|(a, _)| {
            cands.iter().any(|(b, _)| b.len() > a.len() && AFFIXES.iter().any(|x| *b == format!("{a}{x}") || *b == format!("{x}{a}")))
        });
        if ambiguous {
            return Some(cands.iter().any(|(_, f)| *f));
        }
        let best = cands.iter().map(|(n, _)| n.len()).max().unwrap_or(0);
        Some(cands.iter().filter(|(n, _)| n.len() == best).any(|(_, f)| *f))
    }

    /// Relatedness of an item: if it has owners that belong to declarations, they decide — an item
    /// about an unrelated declaration must not change even where it happens to mention a name that
    /// looks like a family member's (`LinkChild` the child enum of `Link` vs. a packet `LinkChild`);
    /// an item without attributable owner (preamble, helper, list) is skipped when it mentions one.
    pub fn related_item(&mut self, item: &Item) -> bool {
        if let Some(owners) = &item.owners {
            let attr: Vec<bool> = owners.iter().filter_map(|o| self.attribute(o)).collect();
            if !attr.is_empty() {
                return attr.iter().any(|f| *f);
            }
        }
        self.related(&item.text)
    }

    fn token_related(&mut self, tok: &str) -> bool {
        if let Some(r) = self.cache.get(tok) {
            return *r;
        }
        let t = norm(tok);
        let mut best_len = 0usize;
        let mut best_family = false;
        for (n, fam) in &self.names {
            if n.len() >= best_len && t.contains(n.as_str()) {
                if n.len() > best_len {
                    best_len = n.len();
                    best_family = *fam;
                } else if *fam {
                    best_family = true;
                }
            }
        }
        let r = best_len > 0 && best_family;
        self.cache.insert(tok.to_string(), r);
        r
    }

    pub fn related(&mut self, item: &str) -> bool {
        let mut start: Option<usize> = None;
        let bytes = item.as_bytes();
        for i in 0..=bytes.len() {
            let is_id = i < bytes.len() && (bytes[i].is_ascii_alphanumeric() || bytes[i] == b'_');
            match (start, is_id) {
                (None, true) => start = Some(i),
                (Some(s), false) => {
                    let tok = &item[s..i];
                    if !tok.as_bytes()[0].is_ascii_digit() && self.token_related(tok) {
                        return true;
                    }
                    start = None;
                }
                _ => {}
            }
        }
        false
    }
}

#[derive(Debug, Default, Clone)]
pub struct ExclusionStats {
    pub compared: usize,
    pub skipped_related: usize,
}

/// Compare item multisets of `base` (options) and `excl` (options ∪ E).
/// `family` = union of the inheritance families of E's members (raw declaration ids).
pub fn exclusion_diff_items(
    base_items: &[Item],
    excl_items: &[Item],
    all_decls: &[String],
    family: &BTreeSet<String>,
) -> (ExclusionStats, Option<String>) {
    let mut rel = Relation::new(all_decls, family);
    let mut stats = ExclusionStats::default();
    let mut count = |items: &[Item]| -> BTreeMap<String, i64> {
        let mut m = BTreeMap::new();
        for it in items {
            if rel.related_item(it) {
                stats.skipped_related += 1;
            } else {
                stats.compared += 1;
                *m.entry(it.text.clone()).or_insert(0) += 1;
            }
        }
        m
    };
    let a = count(base_items);
    let b = count(excl_items);
    for (k, n) in &a {
        let m = b.get(k).copied().unwrap_or(0);
        if m != *n {
            let head: String = k.chars().take(160).collect();
            return (stats, Some(format!("item present {n}x without the exclusion but {m}x with it: {head}")));
        }
    }
    for (k, m) in &b {
        if !a.contains_key(k) {
            let head: String = k.chars().take(160).collect();
            return (stats, Some(format!("item appears only when the unrelated declarations are excluded ({m}x): {head}")));
        }
    }
    (stats, None)
}

/// Java: per-file comparison. A file is comparable if neither its name nor its content
/// mentions the family.
pub fn exclusion_diff_files(
    base: &BTreeMap<String, Vec<u8>>,
    excl: &BTreeMap<String, Vec<u8>>,
    all_decls: &[String],
    family: &BTreeSet<String>,
) -> (ExclusionStats, Option<String>) {
    let rel = std::cell::RefCell::new(Relation::new(all_decls, family));
    let mut stats = ExclusionStats::default();
    let related = |name: &str, content: &[u8]| -> bool {
        let mut r = rel.borrow_mut();
        let stem = name.rsplit('/').next().unwrap_or(name).trim_end_matches(".java").to_string();
        r.related_item(&Item { text: String::from_utf8_lossy(content).into_owned(), owners: Some(vec![stem]) })
    };
    for (name, content) in base {
        if related(name, content) {
            stats.skipped_related += 1;
            continue;
        }
        stats.compared += 1;
        match excl.get(name) {
            None => return (stats, Some(format!("file {name} disappears when unrelated declarations are excluded"))),
            Some(c) if c != content => {
                return (stats, Some(format!("file {name} changes when unrelated declarations are excluded (first diff at {:?})", simcore::first_diff(content, c))))
            }
            _ => {}
        }
    }
    for (name, content) in excl {
        if related(name, content) {
            continue;
        }
        if !base.contains_key(name) {
            return (stats, Some(format!("file {name} appears only when unrelated declarations are excluded")));
        }
    }
    (stats, None)
}

