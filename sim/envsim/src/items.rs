//! Oracle I5 (exclusion): split a backend's output into top-level items and compare the
//! items that cannot legitimately change when a set E of leaf declarations is excluded.
//!
//! Sound by construction: an item is compared only if its normalised text mentions no
//! declaration of E's inheritance families (case-insensitive, underscores ignored, so
//! that every backend's naming convention — `FooBuilder`, `FooView`, `CKind6Beta` — is
//! covered by plain substring search).

use crate::corpus::Backend;
use std::collections::{BTreeMap, BTreeSet};

pub fn norm(s: &str) -> String {
    s.chars().filter(|c| *c != '_').flat_map(|c| c.to_lowercase()).collect()
}

/// Column-0 blank-line structure splitter for Python / C++ / JSON-free text.
fn split_text(text: &str) -> Vec<String> {
    let mut items: Vec<String> = Vec::new();
    let mut cur = String::new();
    let mut prev_blank = true;
    for line in text.split_inclusive('\n') {
        let blank = line.trim().is_empty();
        let col0 = !blank && !line.starts_with(' ') && !line.starts_with('\t');
        let closer = line.starts_with('}') || line.starts_with(')') || line.starts_with(']');
        if col0 && prev_blank && !closer && !cur.trim().is_empty() {
            items.push(std::mem::take(&mut cur));
        }
        cur.push_str(line);
        prev_blank = blank;
    }
    if !cur.trim().is_empty() {
        items.push(cur);
    }
    // a chunk made only of column-0 one-liners (forward declarations, imports) is split per line
    let mut out = Vec::new();
    for it in items {
        let lines: Vec<&str> = it.lines().filter(|l| !l.trim().is_empty()).collect();
        let all_col0 = lines.len() > 1
            && lines.iter().all(|l| !l.starts_with(' ') && !l.starts_with('\t') && (l.ends_with(';') || l.starts_with("import ") || l.starts_with("from ") || l.starts_with("#include")));
        if all_col0 {
            for l in lines {
                out.push(l.to_string());
            }
        } else {
            out.push(it.trim_end().to_string());
        }
    }
    out
}

fn split_rust(text: &str) -> Option<Vec<String>> {
    use quote::ToTokens;
    let file = syn::parse_file(text).ok()?;
    let mut v: Vec<String> = file.attrs.iter().map(|a| a.to_token_stream().to_string()).collect();
    for it in file.items {
        v.push(it.to_token_stream().to_string());
    }
    Some(v)
}

fn split_json(text: &str) -> Option<Vec<String>> {
    let v: serde_json::Value = serde_json::from_str(text).ok()?;
    let mut out = Vec::new();
    for (k, x) in v.as_object()? {
        if k == "declarations" {
            for d in x.as_array()? {
                out.push(serde_json::to_string(d).ok()?);
            }
        } else {
            out.push(format!("{}:{}", k, serde_json::to_string(x).ok()?));
        }
    }
    Some(out)
}

pub fn split_items(backend: Backend, bytes: &[u8]) -> Option<Vec<String>> {
    let text = std::str::from_utf8(bytes).ok()?;
    match backend {
        Backend::Rust => split_rust(text),
        Backend::Json => split_json(text),
        Backend::Python | Backend::Cxx => Some(split_text(text)),
        Backend::Java => None, // compared per file, see compare_files
    }
}

/// Relatedness of an item to the excluded declarations' inheritance families, decided per
/// identifier token: a token is attributed to the LONGEST declaration name (of the whole
/// file, normalised) it contains; it is related when that name belongs to a family (ties
/// between a family and a non-family name of equal length count as related). So
/// `StatusReportView` belongs to `StatusReport`, not to an excluded `Status`, while
/// `StatusBuilder`, `IsValidStatus` and `status` do belong to `Status`.
pub struct Relation {
    /// (normalised declaration name, is in a family of E)
    names: Vec<(String, bool)>,
    cache: std::collections::HashMap<String, bool>,
}

impl Relation {
    pub fn new(all_decls: &[String], family: &BTreeSet<String>) -> Relation {
        let mut names: Vec<(String, bool)> = all_decls.iter().map(|d| (norm(d), family.contains(d))).filter(|(n, _)| !n.is_empty()).collect();
        // family members that are not (or no longer) in the declaration list still count
        for f in family {
            if !all_decls.contains(f) {
                names.push((norm(f), true));
            }
        }
        Relation { names, cache: std::collections::HashMap::new() }
    }

    fn token_related(&mut self, tok: &str) -> bool {
        if let Some(r) = self.cache.get(tok) {
            return *r;
        }
        let t = norm(tok);
        let mut best_len = 0usize;
        let mut best_family = false;
        for (n, fam) in &self.names {
            if n.len() >= best_len && t.contains(n.as_str()) {
                if n.len() > best_len {
                    best_len = n.len();
                    best_family = *fam;
                } else if *fam {
                    best_family = true;
                }
            }
        }
        let r = best_len > 0 && best_family;
        self.cache.insert(tok.to_string(), r);
        r
    }

    pub fn related(&mut self, item: &str) -> bool {
        let mut start: Option<usize> = None;
        let bytes = item.as_bytes();
        for i in 0..=bytes.len() {
            let is_id = i < bytes.len() && (bytes[i].is_ascii_alphanumeric() || bytes[i] == b'_');
            match (start, is_id) {
                (None, true) => start = Some(i),
                (Some(s), false) => {
                    let tok = &item[s..i];
                    if !tok.as_bytes()[0].is_ascii_digit() && self.token_related(tok) {
                        return true;
                    }
                    start = None;
                }
                _ => {}
            }
        }
        false
    }
}

#[derive(Debug, Default, Clone)]
pub struct ExclusionStats {
    pub compared: usize,
    pub skipped_related: usize,
}

/// Compare item multisets of `base` (options) and `excl` (options ∪ E).
/// `family` = union of the inheritance families of E's members (raw declaration ids).
pub fn exclusion_diff_items(
    base_items: &[String],
    excl_items: &[String],
    all_decls: &[String],
    family: &BTreeSet<String>,
) -> (ExclusionStats, Option<String>) {
    let mut rel = Relation::new(all_decls, family);
    let mut stats = ExclusionStats::default();
    let mut count = |items: &[String]| -> BTreeMap<String, i64> {
        let mut m = BTreeMap::new();
        for it in items {
            if rel.related(it) {
                stats.skipped_related += 1;
            } else {
                stats.compared += 1;
                *m.entry(it.clone()).or_insert(0) += 1;
            }
        }
        m
    };
    let a = count(base_items);
    let b = count(excl_items);
    for (k, n) in &a {
        let m = b.get(k).copied().unwrap_or(0);
        if m != *n {
            let head: String = k.chars().take(160).collect();
            return (stats, Some(format!("item present {n}x without the exclusion but {m}x with it: {head}")));
        }
    }
    for (k, m) in &b {
        if !a.contains_key(k) {
            let head: String = k.chars().take(160).collect();
            return (stats, Some(format!("item appears only when the unrelated declarations are excluded ({m}x): {head}")));
        }
    }
    (stats, None)
}

/// Java: per-file comparison. A file is comparable if neither its name nor its content
/// mentions the family.
pub fn exclusion_diff_files(
    base: &BTreeMap<String, Vec<u8>>,
    excl: &BTreeMap<String, Vec<u8>>,
    all_decls: &[String],
    family: &BTreeSet<String>,
) -> (ExclusionStats, Option<String>) {
    let rel = std::cell::RefCell::new(Relation::new(all_decls, family));
    let mut stats = ExclusionStats::default();
    let related = |name: &str, content: &[u8]| -> bool {
        let mut r = rel.borrow_mut();
        r.related(name) || r.related(&String::from_utf8_lossy(content))
    };
    for (name, content) in base {
        if related(name, content) {
            stats.skipped_related += 1;
            continue;
        }
        stats.compared += 1;
        match excl.get(name) {
            None => return (stats, Some(format!("file {name} disappears when unrelated declarations are excluded"))),
            Some(c) if c != content => {
                return (stats, Some(format!("file {name} changes when unrelated declarations are excluded (first diff at {:?})", simcore::first_diff(content, c))))
            }
            _ => {}
        }
    }
    for (name, content) in excl {
        if related(name, content) {
            continue;
        }
        if !base.contains_key(name) {
            return (stats, Some(format!("file {name} appears only when unrelated declarations are excluded")));
        }
    }
    (stats, None)
}
