//! Oracle I5 (exclusion): split a backend's output into top-level items and compare the
//! items that cannot legitimately change when a set E of leaf declarations is excluded.
//!
//! Sound by construction: an item is compared only if its normalised text mentions no
//! declaration of E's inheritance families (case-insensitive, underscores ignored, so
//! that every backend's naming convention — `FooBuilder`, `FooView`, `CKind6Beta` — is
//! covered by plain substring search).

use crate::corpus::Backend;
use std::collections::{BTreeMap, BTreeSet};

pub fn norm(s: &str) -> String {
    s.chars().filter(|c| *c != '_').flat_map(|c| c.to_lowercase()).collect()
}

/// Column-0 blank-line structure splitter for Python / C++ / JSON-free text.
fn split_text(text: &str) -> Vec<String> {
    let mut items: Vec<String> = Vec::new();
    let mut cur = String::new();
    let mut prev_blank = true;
    for line in text.split_inclusive('\n') {
        let blank = line.trim().is_empty();
        let col0 = !blank && !line.starts_with(' ') && !line.starts_with('\t');
        let closer = line.starts_with('}') || line.starts_with(')') || line.starts_with(']');
        if col0 && prev_blank && !closer && !cur.trim().is_empty() {
            items.push(std::mem::take(&mut cur));
        }
        cur.push_str(line);
        prev_blank = blank;
    }
    if !cur.trim().is_empty() {
        items.push(cur);
    }
    // a chunk made only of column-0 one-liners (forward declarations, imports) is split per line
    let mut out = Vec::new();
    for it in items {
        let lines: Vec<&str> = it.lines().filter(|l| !l.trim().is_empty()).collect();
        let all_col0 = lines.len() > 1
            && lines.iter().all(|l| !l.starts_with(' ') && !l.starts_with('\t') && (l.ends_with(';') || l.starts_with("import ") || l.starts_with("from ") || l.starts_with("#include")));
        if all_col0 {
            for l in lines {
                out.push(l.to_string());
            }
        } else {
            out.push(it.trim_end().to_string());
        }
    }
    out
}

fn split_rust(text: &str) -> Option<Vec<String>> {
    use quote::ToTokens;
    let file = syn::parse_file(text).ok()?;
    let mut v: Vec<String> = file.attrs.iter().map(|a| a.to_token_stream().to_string()).collect();
    for it in file.items {
        v.push(it.to_token_stream().to_string());
    }
    Some(v)
}

fn split_json(text: &str) -> Option<Vec<String>> {
    let v: serde_json::Value = serde_json::from_str(text).ok()?;
    let mut out = Vec::new();
    for (k, x) in v.as_object()? {
        if k == "declarations" {
            for d in x.as_array()? {
                out.push(serde_json::to_string(d).ok()?);
            }
        } else {
            out.push(format!("{}:{}", k, serde_json::to_string(x).ok()?));
        }
    }
    Some(out)
}

pub fn split_items(backend: Backend, bytes: &[u8]) -> Option<Vec<String>> {
    let text = std::str::from_utf8(bytes).ok()?;
    match backend {
        Backend::Rust => split_rust(text),
        Backend::Json => split_json(text),
        Backend::Python | Backend::Cxx => Some(split_text(text)),
        Backend::Java => None, // compared per file, see compare_files
    }
}

fn mentions(item_norm: &str, names_norm: &[String]) -> bool {
    names_norm.iter().any(|n| item_norm.contains(n.as_str()))
}

#[derive(Debug, Default, Clone)]
pub struct ExclusionStats {
    pub compared: usize,
    pub skipped_related: usize,
}

/// Compare item multisets of `base` (options) and `excl` (options ∪ E).
/// `family` = union of the inheritance families of E's members (raw declaration ids).
pub fn exclusion_diff_items(
    base_items: &[String],
    excl_items: &[String],
    family: &BTreeSet<String>,
) -> (ExclusionStats, Option<String>) {
    let names: Vec<String> = family.iter().map(|n| norm(n)).filter(|n| !n.is_empty()).collect();
    let mut stats = ExclusionStats::default();
    let mut count = |items: &[String]| -> BTreeMap<String, i64> {
        let mut m = BTreeMap::new();
        for it in items {
            if mentions(&norm(it), &names) {
                stats.skipped_related += 1;
            } else {
                stats.compared += 1;
                *m.entry(it.clone()).or_insert(0) += 1;
            }
        }
        m
    };
    let a = count(base_items);
    let b = count(excl_items);
    for (k, n) in &a {
        let m = b.get(k).copied().unwrap_or(0);
        if m != *n {
            let head: String = k.chars().take(160).collect();
            return (stats, Some(format!("item present {n}x without the exclusion but {m}x with it: {head}")));
        }
    }
    for (k, m) in &b {
        if !a.contains_key(k) {
            let head: String = k.chars().take(160).collect();
            return (stats, Some(format!("item appears only when the unrelated declarations are excluded ({m}x): {head}")));
        }
    }
    (stats, None)
}

/// Java: per-file comparison. A file is comparable if neither its name nor its content
/// mentions the family.
pub fn exclusion_diff_files(
    base: &BTreeMap<String, Vec<u8>>,
    excl: &BTreeMap<String, Vec<u8>>,
    family: &BTreeSet<String>,
) -> (ExclusionStats, Option<String>) {
    let names: Vec<String> = family.iter().map(|n| norm(n)).filter(|n| !n.is_empty()).collect();
    let mut stats = ExclusionStats::default();
    let related = |name: &str, content: &[u8]| -> bool {
        mentions(&norm(name), &names) || mentions(&norm(&String::from_utf8_lossy(content)), &names)
    };
    for (name, content) in base {
        if related(name, content) {
            stats.skipped_related += 1;
            continue;
        }
        stats.compared += 1;
        match excl.get(name) {
            None => return (stats, Some(format!("file {name} disappears when unrelated declarations are excluded"))),
            Some(c) if c != content => {
                return (stats, Some(format!("file {name} changes when unrelated declarations are excluded (first diff at {:?})", simcore::first_diff(content, c))))
            }
            _ => {}
        }
    }
    for (name, content) in excl {
        if related(name, content) {
            continue;
        }
        if !base.contains_key(name) {
            return (stats, Some(format!("file {name} appears only when unrelated declarations are excluded")));
        }
    }
    (stats, None)
}
