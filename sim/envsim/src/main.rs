//! envsim — ENV-SIM, the deterministic simulator deciding property C11 (DESIGN.md §3).
//!
//!   envsim check   --tier quick|thorough      run tiers P and L, write evidence, exit 0/1/2
//!   envsim replay  <file>                      re-execute one recorded run
//!   envsim l-worker ...                        (internal) tier L worker process
//!
//! Exit status: 0 held on everything explored; 1 violation (VIOLATION line printed);
//! 2 harness error.

mod corpus;
mod items;
mod report;
mod tierd;
mod tierl;
mod tierp;
mod tiers;

use std::path::PathBuf;

pub struct Paths {
    pub verif: PathBuf,
    pub build: PathBuf,
    /// where evidence/ and replays/ are written (default: verif)
    pub out: PathBuf,
}

impl Paths {
    pub fn from_env() -> Paths {
        let verif = PathBuf::from(std::env::var("VERIF_DIR").unwrap_or_else(|_| "/verif".into()));
        let build = PathBuf::from(std::env::var("VERIF_BUILD").unwrap_or_else(|_| verif.join(".build").to_string_lossy().into_owned()));
        let out = PathBuf::from(std::env::var("VERIF_OUT").unwrap_or_else(|_| verif.to_string_lossy().into_owned()));
        Paths { verif, build, out }
    }
    pub fn pdlc(&self) -> PathBuf {
        self.build.join("repo-target/release/pdlc")
    }
    pub fn shim(&self) -> PathBuf {
        self.build.join("pdlsim.so")
    }
    pub fn launcher(&self) -> PathBuf {
        self.build.join("pdlsim_run")
    }
}

fn usage() -> ! {
    eprintln!("usage: envsim check --tier quick|thorough | replay <file> | l-worker <args>");
    std::process::exit(2)
}

fn main() {
    let args: Vec<String> = std::env::args().collect();
    if args.len() < 2 {
        usage();
    }
    let code = match args[1].as_str() {
        "check" => {
            let mut tier = std::env::var("VERIF_TIER").unwrap_or_else(|_| "quick".into());
            let mut i = 2;
            while i < args.len() {
                if args[i] == "--tier" && i + 1 < args.len() {
                    tier = args[i + 1].clone();
                    i += 1;
                }
                i += 1;
            }
            report::check(&Paths::from_env(), &tier)
        }
        "replay" => {
            if args.len() < 3 {
                usage();
            }
            report::replay(&Paths::from_env(), &PathBuf::from(&args[2]))
        }
        "l-worker" => tierl::worker_main(&args[2..]),
        "p-run" => report::debug_p_run(&Paths::from_env(), &args[2..]),
        _ => usage(),
    };
    std::process::exit(code);
}
