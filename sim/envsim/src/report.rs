//! Orchestration of a C11 check: run the tiers on all cores, minimise and persist
//! violations as replay files, honour the known-findings list, write the evidence.

use crate::corpus::{Backend, Corpus};
use crate::tierl;
use crate::tierp::{self, Ctx, Job, Perturb, RunResult, RunStats, Violation, WorkerDir};
use crate::Paths;
use serde_json::{json, Value};
use simcore::{stable_hash, verif_seed, write_json};
use std::collections::{BTreeMap, BTreeSet, HashMap};
use std::path::{Path, PathBuf};
use std::sync::atomic::{AtomicU64, Ordering};
use std::sync::{Arc, Mutex};
use std::time::Instant;

pub fn env_u64(name: &str, default: u64) -> u64 {
    std::env::var(name).ok().and_then(|s| s.parse().ok()).unwrap_or(default)
}

pub fn workers() -> usize {
    env_u64("VERIF_WORKERS", std::thread::available_parallelism().map(|n| n.get() as u64).unwrap_or(8)) as usize
}

pub fn make_ctx(paths: &Paths, sub: &str) -> Result<Ctx, String> {
    let corpus = Corpus::load(&paths.verif.join("corpus"))?;
    for p in [paths.pdlc(), paths.shim(), paths.launcher()] {
        if !p.exists() {
            return Err(format!("missing build product {}", p.display()));
        }
    }
    let scratch = paths.build.join("scratch").join(sub);
    let _ = std::fs::remove_dir_all(&scratch);
    std::fs::create_dir_all(&scratch).map_err(|e| e.to_string())?;
    Ok(Ctx { corpus_dir: paths.verif.join("corpus"), pdlc: paths.pdlc(), shim: paths.shim(), launcher: paths.launcher(), scratch, corpus, memo: Mutex::new(HashMap::new()), memo_bytes: Mutex::new(0) })
}

/// Run tier P runs [0, n) on `nworkers` threads; results indexed by run.
pub fn run_tier_p(ctx: &Arc<Ctx>, seed: u64, n: u64, nworkers: usize, deadline: Option<Instant>) -> Vec<Option<RunResult>> {
    let next = Arc::new(AtomicU64::new(0));
    let results: Arc<Mutex<Vec<Option<RunResult>>>> = Arc::new(Mutex::new((0..n).map(|_| None).collect()));
    let mut handles = Vec::new();
    for k in 0..nworkers {
        let ctx = ctx.clone();
        let next = next.clone();
        let results = results.clone();
        handles.push(std::thread::spawn(move || {
            let wd = WorkerDir::new(&ctx.scratch, k);
            wd.install_aux(&ctx.corpus_dir);
            loop {
                let i = next.fetch_add(1, Ordering::SeqCst);
                if i >= n {
                    break;
                }
                if let Some(d) = deadline {
                    if Instant::now() > d {
                        break;
                    }
                }
                let r = tierp::run_one(&ctx, &wd, seed, i);
                results.lock().unwrap()[i as usize] = Some(r);
            }
            let _ = std::fs::remove_dir_all(&wd.root);
        }));
    }
    for h in handles {
        h.join().expect("tier P worker panicked");
    }
    Arc::try_unwrap(results).ok().unwrap().into_inner().unwrap()
}

// ---------------------------------------------------------------- known findings

pub struct Known {
    pub findings: Vec<Value>,
}

impl Known {
    pub fn load(verif: &Path) -> Known {
        let p = verif.join("known_findings.json");
        let v: Value = std::fs::read_to_string(&p).ok().and_then(|s| serde_json::from_str(&s).ok()).unwrap_or(json!({}));
        Known { findings: v["findings"].as_array().cloned().unwrap_or_default().into_iter().filter(|f| f["property"] == "C11").collect() }
    }
    /// A finding matches a violation when every key of its "match" object equals the
    /// corresponding key of the violation's signature (strings) or is a substring of "detail".
    pub fn matches(&self, sig: &Value) -> Option<&Value> {
        self.findings.iter().find(|f| {
            let m = match f["match"].as_object() {
                Some(m) => m,
                None => return false,
            };
            m.iter().all(|(k, v)| {
                if k == "detail_contains" {
                    sig["detail"].as_str().map(|d| d.contains(v.as_str().unwrap_or("\u{0}"))).unwrap_or(false)
                } else {
                    &sig[k] == v
                }
            })
        })
    }
}

// ---------------------------------------------------------------- minimisation (tier P)

fn violates(ctx: &Ctx, wd: &WorkerDir, job: &Job, p: &Perturb, inv: &str) -> bool {
    let mut st = RunStats::default();
    let v = if inv == "I5" { tierp::check_exclusion(ctx, wd, job, &mut st) } else { tierp::execute(ctx, wd, job, p, &mut st) };
    matches!(v, Some(v) if v.invariant == inv)
}

use crate::corpus::split_decls;

pub fn minimise_p(ctx: &Ctx, wd: &WorkerDir, job: &Job, p: &Perturb, inv: &str) -> (Job, Perturb, u32) {
    let mut job = job.clone();
    let mut p = p.clone();
    let mut steps = 0u32;
    let canon = Perturb::canonical();
    // freeze the source text so that it can be shrunk
    let text0 = job.text(&ctx.corpus);
    job.text_override = Some(text0);
    job.sibling = None;
    if !violates(ctx, wd, &job, &p, inv) {
        return (job, p, 0); // not reproducible: leave as is (reported as such)
    }
    macro_rules! try_reset {
        ($field:ident) => {
            if p.$field != canon.$field {
                let mut q = p.clone();
                q.$field = canon.$field.clone();
                if violates(ctx, wd, &job, &q, inv) {
                    p = q;
                    steps += 1;
                }
            }
        };
    }
    try_reset!(java_hist);
    try_reset!(wr_crash_at);
    try_reset!(wr_fail_at);
    try_reset!(rd_fail_at);
    try_reset!(wr_rate);
    try_reset!(rd_rate);
    try_reset!(env);
    try_reset!(clock);
    try_reset!(pid);
    try_reset!(cwd_b);
    try_reset!(heap_shift);
    try_reset!(mmap_shift);
    try_reset!(sink_pipe);
    try_reset!(input_first);
    try_reset!(src_mtime);
    try_reset!(host);
    try_reset!(ncpu);
    try_reset!(src_symlink);
    try_reset!(tty_mask);
    try_reset!(prev_run);
    try_reset!(persist_home);
    try_reset!(hash_seed);
    // individual environment variables
    let mut i = 0;
    while i < p.env.len() {
        let mut q = p.clone();
        q.env.remove(i);
        if violates(ctx, wd, &job, &q, inv) {
            p = q;
            steps += 1;
        } else {
            i += 1;
        }
    }
    // exclusion set
    let mut i = 0;
    while job.extra_excl.len() > 1 && i < job.extra_excl.len() {
        let mut j = job.clone();
        j.extra_excl.remove(i);
        if violates(ctx, wd, &j, &p, inv) {
            job = j;
            steps += 1;
        } else {
            i += 1;
        }
    }
    // source declarations (bounded effort)
    let mut budget = 200;
    loop {
        let chunks = split_decls(job.text_override.as_ref().unwrap());
        if chunks.len() <= 2 {
            break;
        }
        let mut progressed = false;
        let mut i = chunks.len();
        while i > 1 && budget > 0 {
            i -= 1;
            let cur = split_decls(job.text_override.as_ref().unwrap());
            if i >= cur.len() {
                continue;
            }
            let mut c2 = cur.clone();
            c2.remove(i);
            let mut j = job.clone();
            j.text_override = Some(c2.concat());
            budget -= 1;
            if violates(ctx, wd, &j, &p, inv) {
                job = j;
                steps += 1;
                progressed = true;
            }
        }
        if !progressed || budget == 0 {
            break;
        }
    }
    (job, p, steps)
}

// ---------------------------------------------------------------- replay files

fn signature(tier: &str, job_json: &Value, v: &Violation) -> Value {
    json!({
        "tier": tier,
        "invariant": v.invariant,
        "entry": job_json["entry"],
        "backend": job_json["backend"],
        "detail": v.detail,
    })
}

pub fn write_replay_p(paths: &Paths, ctx: &Ctx, seed: u64, run: u64, job: &Job, p: &Perturb, v: &Violation, min_steps: u32, original: Option<(&Job, &Perturb)>) -> PathBuf {
    let path = paths.out.join("replays").join(format!("C11-{seed}-P{run}.json"));
    let mut j = json!({
        "property": "C11",
        "tier": "P",
        "seed": seed,
        "run": run,
        "job": job.to_json(&ctx.corpus),
        "perturb": p.to_json(),
        "violation": {"invariant": v.invariant, "detail": v.detail},
        "minimisation_steps": min_steps,
        "replay": format!("bin/check C11 --replay {}", path.display()),
    });
    if let Some((oj, op)) = original {
        j["original"] = json!({"job": oj.to_json(&ctx.corpus), "perturb": op.to_json()});
    }
    write_json(&path, &j).expect("write replay");
    path
}

fn job_from_json(c: &Corpus, v: &Value) -> Option<Job> {
    let id = v["entry"].as_str()?;
    let entry = c.entries.iter().position(|e| e.id == id)?;
    Some(Job {
        entry,
        sibling: None,
        backend: crate::corpus::Backend::from_name(v["backend"].as_str()?)?,
        extra_excl: v["extra_exclude"].as_array()?.iter().filter_map(|x| x.as_str().map(String::from)).collect(),
        text_override: Some(v["source_text"].as_str()?.to_string()),
        extra_args: v["extra_args"].as_array().map(|a| a.iter().filter_map(|x| x.as_str().map(String::from)).collect()).unwrap_or_default(),
    })
}

pub fn replay(paths: &Paths, file: &Path) -> i32 {
    let v: Value = match std::fs::read_to_string(file).ok().and_then(|s| serde_json::from_str(&s).ok()) {
        Some(v) => v,
        None => {
            eprintln!("envsim: cannot read replay file {}", file.display());
            return 2;
        }
    };
    println!("VERIF_SEED={} (recorded) tier={} run={}", v["seed"], v["tier"], v["run"]);
    match v["tier"].as_str() {
        Some("P") => {
            let ctx = match make_ctx(paths, "replay") {
                Ok(c) => c,
                Err(e) => {
                    eprintln!("envsim: {e}");
                    return 2;
                }
            };
            let wd = WorkerDir::new(&ctx.scratch, 0);
            wd.install_aux(&ctx.corpus_dir);
            let (job, p) = match (job_from_json(&ctx.corpus, &v["job"]), Perturb::from_json(&v["perturb"])) {
                (Some(j), Some(p)) => (j, p),
                _ => {
                    eprintln!("envsim: malformed replay file");
                    return 2;
                }
            };
            let inv = v["violation"]["invariant"].as_str().unwrap_or("");
            let mut st = RunStats::default();
            let got = if inv == "I5" { tierp::check_exclusion(&ctx, &wd, &job, &mut st) } else { tierp::execute(&ctx, &wd, &job, &p, &mut st) };
            let _ = std::fs::remove_dir_all(&ctx.scratch);
            match got {
                Some(g) => {
                    println!("reproduced: invariant {} — {}", g.invariant, g.detail);
                    println!("VIOLATION property=C11 replay={}", file.display());
                    1
                }
                None => {
                    println!("not reproduced on the current tree (recorded: {} — {})", inv, v["violation"]["detail"].as_str().unwrap_or(""));
                    0
                }
            }
        }
        Some("L") => tierl::replay(paths, &v, file),
        Some("D") => crate::tierd::replay(paths, &v, file),
        Some("S") => crate::tiers::replay(paths, &v, file),
        _ => {
            eprintln!("envsim: unknown tier in replay file");
            2
        }
    }
}

// ---------------------------------------------------------------- check

fn merge(into: &mut BTreeMap<String, u64>, from: &BTreeMap<String, u64>) {
    for (k, v) in from {
        *into.entry(k.clone()).or_insert(0) += v;
    }
}

pub fn check(paths: &Paths, tier: &str) -> i32 {
    let t0 = Instant::now();
    let seed = verif_seed();
    println!("C11 ENV-SIM: VERIF_SEED={seed} tier={tier}");
    let thorough = tier == "thorough";
    let nworkers = workers();
    let p_runs = env_u64("VERIF_P_RUNS", if thorough { 120_000 } else { 1_600 });
    let l_runs = env_u64("VERIF_L_RUNS", if thorough { 150_000 } else { 2_400 });
    let selfcheck_runs = env_u64("VERIF_SELFCHECK_RUNS", if thorough { 400 } else { 60 });
    let budget_s = env_u64("VERIF_BUDGET_S", if thorough { 3000 } else { 240 });
    // the wall-clock budget is split between the tiers: P 45 %, L 30 %, D 25 %
    let start = Instant::now();
    let deadline_p = start + std::time::Duration::from_secs(budget_s * 45 / 100);
    let deadline_l = start + std::time::Duration::from_secs(budget_s * 75 / 100);
    let deadline = start + std::time::Duration::from_secs(budget_s);

    let ctx = match make_ctx(paths, "p") {
        Ok(c) => Arc::new(c),
        Err(e) => {
            eprintln!("envsim: harness error: {e}");
            return 2;
        }
    };
    let known = Known::load(&paths.verif);
    let mut violations: Vec<(Value, PathBuf)> = Vec::new(); // (signature, replay path)
    let mut known_hits: BTreeSet<String> = BTreeSet::new();

    // ---------------- tier P ----------------
    let tp0 = Instant::now();
    let results = run_tier_p(&ctx, seed, p_runs, nworkers, Some(deadline_p));
    let p_wall = tp0.elapsed().as_secs_f64();

    let mut p_done = 0u64;
    let mut procs = 0u64;
    let mut fired = BTreeMap::new();
    let mut enabled = BTreeMap::new();
    let mut open_orders: BTreeSet<u64> = BTreeSet::new();
    let mut nontrivial: BTreeSet<u64> = BTreeSet::new();
    let mut ref_status_hist: BTreeMap<String, u64> = BTreeMap::new();
    let mut per_backend: BTreeMap<String, u64> = BTreeMap::new();
    let mut excl_compared = 0u64;
    let mut excl_skipped = 0u64;
    let mut diag_mismatch = 0u64;
    let mut samples: Vec<Value> = Vec::new();
    let mut entries_seen: BTreeSet<usize> = BTreeSet::new();
    let wd0 = WorkerDir::new(&ctx.scratch, 999);
    wd0.install_aux(&ctx.corpus_dir);
    for (i, r) in results.iter().enumerate() {
        let r = match r {
            Some(r) => r,
            None => continue,
        };
        p_done += 1;
        procs += r.stats.procs;
        merge(&mut fired, &r.stats.fired);
        merge(&mut enabled, &r.stats.enabled);
        if let Some(h) = r.stats.open_order_hash {
            open_orders.insert(h);
        }
        if r.stats.nontrivial {
            nontrivial.insert(stable_hash(&(format!("{:?}", r.job), format!("{:?}", r.perturb))));
        }
        entries_seen.insert(r.job.entry);
        *ref_status_hist.entry(format!("exit_{}", r.stats.ref_status)).or_insert(0) += 1;
        *per_backend.entry(r.job.backend.name().to_string()).or_insert(0) += 1;
        excl_compared += r.stats.excl_items_compared;
        excl_skipped += r.stats.excl_items_skipped;
        diag_mismatch += r.stats.rejected_diag_mismatch as u64;
        if samples.len() < 4 && r.stats.nontrivial && i % 7 == 3 {
            let mut j = r.job.to_json(&ctx.corpus);
            j.as_object_mut().unwrap().remove("source_text");
            samples.push(json!({"tier": "P", "run": i, "job": j, "perturb": r.perturb.to_json(), "fired": r.stats.fired, "verdict": "held"}));
        }
        if let Some(v) = &r.violation {
            let sig = signature("P", &r.job.to_json(&ctx.corpus), v);
            if let Some(f) = known.matches(&sig) {
                known_hits.insert(f["what"].as_str().unwrap_or("known finding").to_string());
                continue;
            }
            // minimise the first few, persist all (bounded)
            if violations.len() < 5 {
                let (mj, mp, steps) = minimise_p(&ctx, &wd0, &r.job, &r.perturb, v.invariant);
                let mut st = RunStats::default();
                let mv = if v.invariant == "I5" { tierp::check_exclusion(&ctx, &wd0, &mj, &mut st) } else { tierp::execute(&ctx, &wd0, &mj, &mp, &mut st) };
                let mv = mv.unwrap_or_else(|| v.clone());
                let path = write_replay_p(paths, &ctx, seed, i as u64, &mj, &mp, &mv, steps, Some((&r.job, &r.perturb)));
                violations.push((signature("P", &mj.to_json(&ctx.corpus), &mv), path));
            } else if violations.len() < 50 {
                let path = write_replay_p(paths, &ctx, seed, i as u64, &r.job, &r.perturb, v, 0, None);
                violations.push((sig, path));
            }
        }
    }
    let _ = std::fs::remove_dir_all(&wd0.root);

    // determinism self-check, after the violations have been collected (a change that makes the
    // output depend on uncontrolled state shows up both as violations and as run-to-run divergence
    // and must be reported as the former): the first runs again with another worker count.
    let sc_n = selfcheck_runs.min(p_runs);
    if violations.is_empty() {
        let again = run_tier_p(&ctx, seed, sc_n, 1.max(nworkers / 4), None);
        for i in 0..sc_n as usize {
            if let (Some(a), Some(b)) = (&results[i], &again[i]) {
                if a.plan_digest != b.plan_digest {
                    eprintln!("envsim: harness error: tier P run {i} drew different plans in two executions ({:x} vs {:x})", a.plan_digest, b.plan_digest);
                    return 2;
                }
                if a.obs_digest != b.obs_digest {
                    // same seed, same job, same perturbation vector and fault plan — different observation:
                    // the output depends on something the simulator does not own
                    let v = Violation {
                        invariant: "R1",
                        detail: format!(
                            "the same simulated run (same source, options, hash stream, clock, environment, fault plan) was observed twice with different results: {:?} / fired {:?} vs {:?} / fired {:?}",
                            a.violation.as_ref().map(|v| &v.detail), a.stats.fired, b.violation.as_ref().map(|v| &v.detail), b.stats.fired
                        ),
                    };
                    let sig = signature("P", &a.job.to_json(&ctx.corpus), &v);
                    if known.matches(&sig).is_none() {
                        let path = write_replay_p(paths, &ctx, seed, i as u64, &a.job, &a.perturb, &v, 0, None);
                        violations.push((sig, path));
                        if violations.len() >= 5 {
                            break;
                        }
                    }
                }
            }
        }
    }

    if let Ok(path) = std::env::var("VERIF_DUMP_DIGESTS") {
        // determinism proof support: one line per run with what was chosen and what was observed
        let mut text = String::new();
        for (i, r) in results.iter().enumerate() {
            if let Some(r) = r {
                text.push_str(&format!("P {i} {:x} {:x}\n", r.plan_digest, r.obs_digest));
            }
        }
        let _ = std::fs::write(format!("{path}.P"), text);
    }

    // ---------------- tier L ----------------
    let l = tierl::run_tier(paths, seed, l_runs, nworkers, selfcheck_runs, deadline_l, &known);
    let l = match l {
        Ok(l) => l,
        Err(e) => {
            eprintln!("envsim: harness error: {e}");
            return 2;
        }
    };
    for (sig, path) in &l.violations {
        violations.push((sig.clone(), path.clone()));
    }
    for k in &l.known_hits {
        known_hits.insert(k.clone());
    }
    samples.extend(l.samples.iter().cloned());

    // ---------------- I5, exhaustive over single leaves of the hand-written and example descriptions ----------------
    // (the PRNG-drawn exclusion sets above rarely contain the one leaf that matters; enumerating
    // E = {leaf} for every leaf of these small descriptions costs a few seconds)
    let sweep_done = {
        let mut todo: Vec<Job> = Vec::new();
        let wd = WorkerDir::new(&ctx.scratch, 996);
        wd.install_aux(&ctx.corpus_dir);
        for (ei, e) in ctx.corpus.entries.iter().enumerate() {
            let small = e.id.starts_with("hand_") || e.id.starts_with("example_") || e.id.starts_with("pdltests_");
            if !(small || (thorough && e.id.starts_with("canonical"))) || e.id == "hand_many" {
                continue;
            }
            for b in crate::corpus::BACKENDS {
                let job = Job { entry: ei, sibling: None, backend: b, extra_excl: vec![], text_override: None, extra_args: vec![] };
                let mut st = RunStats::default();
                if let Some(g) = tierp::decl_graph(&ctx, &wd, &job, &e.text, &mut st) {
                    let leaves = g.leaves();
                    for leaf in &leaves {
                        todo.push(Job { extra_excl: vec![leaf.clone()], ..job.clone() });
                    }
                    // option variants: the documented qualified form of --custom-field, naming each custom
                    // type of the description in turn (python), and a namespace (C++)
                    if b == Backend::Python && e.opts_for(b).custom_field.is_empty() {
                        let customs: Vec<&str> = e.text.lines().filter_map(|l| l.trim_start().strip_prefix("custom_field ")).filter_map(|r| r.split(|ch: char| !(ch.is_ascii_alphanumeric() || ch == '_')).next()).filter(|n| !n.is_empty()).collect();
                        for cname in &customs {
                            for leaf in &leaves {
                                todo.push(Job { extra_excl: vec![leaf.clone()], extra_args: vec!["--custom-field".to_string(), format!("verif.custom.{cname}")], ..job.clone() });
                            }
                        }
                    }
                    if b == Backend::Cxx {
                        for leaf in &leaves {
                            todo.push(Job { extra_excl: vec![leaf.clone()], extra_args: vec!["--namespace".to_string(), "verif::ns".to_string()], ..job.clone() });
                        }
                    }
                    // and, for every parent all of whose children are leaves, all its children at once
                    // (what changes for others when a declaration stops having children)
                    let mut by_parent: BTreeMap<String, Vec<String>> = BTreeMap::new();
                    for (child, parent) in &g.parent {
                        by_parent.entry(parent.clone()).or_default().push(child.clone());
                    }
                    for (_, mut kids) in by_parent {
                        if kids.len() >= 2 && kids.iter().all(|k| leaves.contains(k)) {
                            kids.sort();
                            todo.push(Job { extra_excl: kids, ..job.clone() });
                        }
                    }
                }
            }
        }
        let _ = std::fs::remove_dir_all(&wd.root);
        let n = todo.len();
        let todo = Arc::new(todo);
        let next = Arc::new(AtomicU64::new(0));
        let found: Arc<Mutex<Vec<(usize, Violation)>>> = Arc::new(Mutex::new(Vec::new()));
        let mut hs = Vec::new();
        for k in 0..nworkers {
            let (ctx, todo, next, found) = (ctx.clone(), todo.clone(), next.clone(), found.clone());
            hs.push(std::thread::spawn(move || {
                let wd = WorkerDir::new(&ctx.scratch, 900 + k);
                wd.install_aux(&ctx.corpus_dir);
                loop {
                    let i = next.fetch_add(1, Ordering::SeqCst) as usize;
                    if i >= todo.len() {
                        break;
                    }
                    let mut st = RunStats::default();
                    if let Some(v) = tierp::check_exclusion(&ctx, &wd, &todo[i], &mut st) {
                        found.lock().unwrap().push((i, v));
                    }
                }
                let _ = std::fs::remove_dir_all(&wd.root);
            }));
        }
        for h in hs {
            let _ = h.join();
        }
        let mut f = found.lock().unwrap().clone();
        f.sort_by_key(|x| x.0);
        for (i, v) in f {
            let job = &todo[i];
            let sig = signature("P", &job.to_json(&ctx.corpus), &v);
            if let Some(m) = known.matches(&sig) {
                known_hits.insert(m["what"].as_str().unwrap_or("known finding").to_string());
                continue;
            }
            if violations.len() < 50 {
                let path = write_replay_p(paths, &ctx, seed, 1_000_000 + i as u64, job, &Perturb::canonical(), &v, 0, None);
                violations.push((sig, path));
            }
        }
        n
    };

    // ---------------- probes of the listed known findings (so that they are reported on every run) ----------------
    {
        let wd = WorkerDir::new(&ctx.scratch, 997);
        wd.install_aux(&ctx.corpus_dir);
        for f in &known.findings {
            let probe = match f["probe"].as_str() {
                Some(p) => paths.verif.join(p),
                None => continue,
            };
            let v: Value = match std::fs::read_to_string(&probe).ok().and_then(|s| serde_json::from_str(&s).ok()) {
                Some(v) => v,
                None => continue,
            };
            if v["tier"] != "P" {
                continue;
            }
            if let (Some(job), Some(p)) = (job_from_json(&ctx.corpus, &v["job"]), Perturb::from_json(&v["perturb"])) {
                let inv = v["violation"]["invariant"].as_str().unwrap_or("");
                let mut st = RunStats::default();
                let got = if inv == "I5" { tierp::check_exclusion(&ctx, &wd, &job, &mut st) } else { tierp::execute(&ctx, &wd, &job, &p, &mut st) };
                if let Some(g) = got {
                    let sig = signature("P", &job.to_json(&ctx.corpus), &g);
                    match known.matches(&sig) {
                        Some(m) => {
                            known_hits.insert(m["what"].as_str().unwrap_or("known finding").to_string());
                        }
                        None => {
                            // the probe fails in a way the list does not describe: that is a new violation
                            violations.push((sig, probe.clone()));
                        }
                    }
                }
            }
        }
        let _ = std::fs::remove_dir_all(&wd.root);
    }

    // ---------------- regression probes: replay files of repaired findings ----------------
    let mut regressions_replayed = 0u64;
    if let Ok(rd) = std::fs::read_dir(paths.verif.join("regression")) {
        let mut files: Vec<PathBuf> = rd.filter_map(|e| e.ok()).map(|e| e.path()).filter(|p| p.extension().map(|x| x == "json").unwrap_or(false)).collect();
        files.sort();
        let wd = WorkerDir::new(&ctx.scratch, 998);
        wd.install_aux(&ctx.corpus_dir);
        for f in files {
            let v: Value = match std::fs::read_to_string(&f).ok().and_then(|s| serde_json::from_str(&s).ok()) {
                Some(v) => v,
                None => continue,
            };
            if v["tier"] != "P" || v["property"] != "C11" {
                continue;
            }
            if let (Some(job), Some(p)) = (job_from_json(&ctx.corpus, &v["job"]), Perturb::from_json(&v["perturb"])) {
                regressions_replayed += 1;
                let inv = v["violation"]["invariant"].as_str().unwrap_or("");
                let mut st = RunStats::default();
                let got = if inv == "I5" { tierp::check_exclusion(&ctx, &wd, &job, &mut st) } else { tierp::execute(&ctx, &wd, &job, &p, &mut st) };
                if let Some(g) = got {
                    let sig = signature("P", &job.to_json(&ctx.corpus), &g);
                    if known.matches(&sig).is_none() {
                        println!("  a repaired finding is back: {}", f.display());
                        violations.push((sig, f.clone()));
                    }
                }
            }
        }
        let _ = std::fs::remove_dir_all(&wd.root);
    }

    // ---------------- tier D ----------------
    let d_rounds = env_u64("VERIF_D_ROUNDS", if thorough { 8 } else { 1 });
    let d = if d_rounds > 0 {
        match crate::tierd::run_tier(paths, &ctx.corpus, seed, d_rounds, if thorough { 4 } else { 3 }, env_u64("VERIF_D_RUNS", if thorough { 1500 } else { 400 }), deadline, &known) {
            Ok(d) => d,
            Err(e) => {
                eprintln!("envsim: harness error: {e}");
                return 2;
            }
        }
    } else {
        crate::tierd::TierDOutcome { rounds: 0, runs: 0, wall_s: 0.0, distinct: 0, violations: vec![], known_hits: vec![], samples: vec![], stats: json!({"rounds": 0}) }
    };
    for (sig, path) in &d.violations {
        violations.push((sig.clone(), path.clone()));
    }
    for k in &d.known_hits {
        known_hits.insert(k.clone());
    }
    samples.extend(d.samples.iter().cloned());

    // ---------------- tier S (shuttle) ----------------
    let s_rounds = env_u64("VERIF_S_ROUNDS", if thorough { 300 } else { 24 });
    let st = match crate::tiers::run_tier(paths, seed, s_rounds, env_u64("VERIF_S_SCHEDULES", if thorough { 16 } else { 12 }), &known) {
        Ok(s) => s,
        Err(e) => {
            eprintln!("envsim: harness error: {e}");
            return 2;
        }
    };
    for (sig, path) in &st.violations {
        violations.push((sig.clone(), path.clone()));
    }
    for k in &st.known_hits {
        known_hits.insert(k.clone());
    }

    // ---------------- verdict + evidence ----------------
    let wall = t0.elapsed().as_secs_f64();
    let evaluations = p_done + l.runs + d.runs + st.executions;
    let distinct_nontrivial = nontrivial.len() as u64 + l.distinct_nontrivial + d.distinct;
    if samples.is_empty() {
        samples.push(json!({"note": "no non-trivial sample selected in this run"}));
    }
    let evidence = json!({
        "property_id": "C11",
        "tier": if thorough { "thorough" } else { "quick" },
        "seed": seed,
        "level": "exploration",
        "wall_s": wall,
        "violations": violations.len(),
        "coverage": {
            "evaluations": evaluations,
            "distinct_nontrivial": distinct_nontrivial,
            "rule": "one evaluation = one simulated run: tier P = one pdlc compilation (1–5 real processes incl. reference, directory/process history and restart) under a PRNG-drawn perturbation vector and I/O fault plan; tier L = 2–6 in-process compilation jobs interleaved step by step (and at yield points inside the stages) by the baton scheduler; tier D = one BUF-SIM workload run against the CLI-generated module and each derive-macro module of a source, histories diffed; tier S = one cold process executing 2–4 shuttle threads under one seeded schedule. Not counted as evaluations: the exhaustive exclusion sweep (single leaves and all-children sets of the small descriptions) and the regression/known-finding probes, reported separately. Non-trivial and distinct: the (job, perturbation vector[, schedule]) tuple is unique in this run, differs from the canonical environment, at least one shim fault/perturbation actually fired (from the shim's event log), and the source has >= 2 declarations; tier D adds its distinct behaviour histories.",
            "samples": samples,
            "tier_P": {
                "runs": p_done, "runs_requested": p_runs, "processes_spawned": procs, "wall_s": p_wall,
                "runs_per_hour": if p_wall > 0.0 { (p_done as f64 / p_wall * 3600.0) as u64 } else { 0 },
                "perturbation_kinds_enabled_in_runs": enabled,
                "fault_events_fired": fired,
                "distinct_java_file_creation_orders": open_orders.len(),
                "reference_exit_status_histogram": ref_status_hist,
                "runs_per_backend": per_backend,
                "corpus_entries_drawn": entries_seen.len(),
                "exclusion_items_compared": excl_compared,
                "exclusion_items_skipped_as_related": excl_skipped,
                "rejected_source_diagnostic_mismatches_canary_not_judged": diag_mismatch,
                "determinism_selfcheck_runs": sc_n,
                "regression_replays_of_repaired_findings": regressions_replayed,
                "exclusion_single_leaf_sweep_checks": sweep_done,
            },
            "tier_L": l.stats,
            "tier_D": d.stats,
            "tier_S": st.stats,
            "corpus": {"entries": ctx.corpus.entries.len(), "siblings": "derived per run by PRNG (flip endianness, swap widths, add/drop field)"},
            "simulated_time": "the code under test has no timers; the simulated clock (epoch drawn in 1970..2100, steps 0..1 day per read, backward jumps) is an input perturbation, simulated time covered is therefore not a meaningful measure and is not claimed",
            "real_components": ["pdlc binary built from /repo (parser, analyzer, all five backends, main.rs)", "pdl-compiler library (tier L)", "Rust std, codespan-reporting, prettyplease, genco", "kernel file system for the java output directory"],
            "stubbed_components": ["kernel entropy (getrandom)", "clocks", "pid", "results of read/write on source and sink fds (short, EINTR, hard errors, crash)", "address-space layout (pinned + seeded shift)", "process environment", "thread scheduler of tier L (baton)"],
            "known_findings_seen": known_hits.iter().collect::<Vec<_>>(),
        },
        "assumptions": [
            "the LD_PRELOAD shim sees every entropy/clock/pid/read/write call pdlc makes (true for this toolchain's std, which calls the libc wrappers; direct syscalls would bypass it)",
            "the corpus (descriptions under corpus/ + seeded siblings) drives the code paths where an order/history dependence could live; paths no corpus entry reaches are not covered",
            "sampling, not enumeration: a clean batch is evidence, not proof"
        ],
    });
    if let Err(e) = write_json(&paths.out.join("evidence/C11.json"), &evidence) {
        eprintln!("envsim: cannot write evidence: {e}");
        return 2;
    }
    for k in &known_hits {
        println!("KNOWN-FINDING: property=C11 {k}");
    }
    println!(
        "C11: tier P {p_done} runs ({procs} processes, {:.1}s), tier L {} runs ({:.1}s), tier D {} rounds / {} workload runs ({:.1}s), tier S {} executions ({:.1}s); distinct non-trivial {distinct_nontrivial}; violations {}",
        p_wall,
        l.runs,
        l.wall_s,
        d.rounds,
        d.runs,
        d.wall_s,
        st.executions,
        st.wall_s,
        violations.len()
    );
    if violations.is_empty() {
        0
    } else {
        for (sig, path) in &violations {
            println!("  {} {} [{} / {}]: {}", sig["tier"].as_str().unwrap_or(""), sig["invariant"].as_str().unwrap_or(""), sig["entry"].as_str().unwrap_or(""), sig["backend"].as_str().unwrap_or(""), sig["detail"].as_str().unwrap_or(""));
            println!("VIOLATION property=C11 replay={}", path.display());
        }
        1
    }
}


/// Debug aid: `envsim p-run <seed> <run> [times]` executes one tier P run repeatedly and prints what was observed.
pub fn debug_p_run(paths: &Paths, args: &[String]) -> i32 {
    let seed: u64 = args.first().and_then(|s| s.parse().ok()).unwrap_or(1);
    let run: u64 = args.get(1).and_then(|s| s.parse().ok()).unwrap_or(0);
    let times: u64 = args.get(2).and_then(|s| s.parse().ok()).unwrap_or(1);
    let ctx = match make_ctx(paths, "debug") {
        Ok(c) => c,
        Err(e) => {
            eprintln!("{e}");
            return 2;
        }
    };
    for t in 0..times {
        let wd = WorkerDir::new(&ctx.scratch, t as usize);
        wd.install_aux(&ctx.corpus_dir);
        let r = tierp::run_one(&ctx, &wd, seed, run);
        if t == 0 {
            let mut j = r.job.to_json(&ctx.corpus);
            j.as_object_mut().unwrap().remove("source_text");
            println!("job {}\nperturb {}", j, r.perturb.to_json());
        }
        println!("#{t} plan {:x} obs {:x} violation {:?} fired {:?} open_order {:?} ref_status {} procs {}", r.plan_digest, r.obs_digest, r.violation.as_ref().map(|v| (v.invariant, &v.detail)), r.stats.fired, r.stats.open_order_hash, r.stats.ref_status, r.stats.procs);
        ctx.memo.lock().unwrap().clear();
    }
    0
}
