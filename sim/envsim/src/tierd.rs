//! Tier D of ENV-SIM: rustc as host of the pdl_derive macros (seam S3).
//!
//! Per round: draw sources, print their Rust code with the freshly built `pdlc`, write a
//! crate fragment in which every source is also expanded by `#[pdl_inline]` twice (in a
//! PRNG-shuffled order, so that other sources are expanded in between, in the same rustc
//! process) and by `#[pdl("file")]`, build it with the real cargo/rustc under the shim
//! with a drawn hash seed, and run the resulting `tierd` binary, which drives the BUF-SIM
//! workload against the CLI module and diffs the behaviour of each derive module (I6).

use crate::corpus::{Corpus, Sibling};
use crate::report::Known;
use crate::Paths;
use serde_json::{json, Value};
use simcore::{stable_hash, write_json, Rng};
use std::path::{Path, PathBuf};
use std::process::Command;
use std::time::Instant;

pub const TAG_D: u64 = 0x44;

pub struct TierDOutcome {
    pub rounds: u64,
    pub runs: u64,
    pub wall_s: f64,
    pub distinct: u64,
    pub violations: Vec<(Value, PathBuf)>,
    pub known_hits: Vec<String>,
    pub samples: Vec<Value>,
    pub stats: Value,
}

fn sanitize(id: &str) -> String {
    id.chars().map(|c| if c.is_ascii_alphanumeric() { c } else { '_' }).collect()
}

struct Source {
    module: String,
    text: String,
    origin: Value,
}

fn candidates(c: &Corpus) -> Vec<usize> {
    // the derive macros take no options: only sources that need none
    c.entries.iter().enumerate().filter(|(_, e)| !e.opts.contains_key("rust") && !e.id.starts_with("ana_") && !e.id.starts_with("derive_test_") && e.id != "hand_derived_names" && e.id != "hand_many" && e.text.len() < 40_000).map(|(i, _)| i).collect()
}

fn draw_sources(rng: &mut Rng, c: &Corpus, n: usize, round: u64) -> Vec<Source> {
    let cand = candidates(c);
    let mut out: Vec<Source> = Vec::new();
    // the identifier-collision probe is always part of the first round
    if round == 0 {
        if let Some(e) = c.entries.iter().find(|e| e.id == "hand_temporaries") {
            out.push(Source { module: sanitize(&e.id), text: e.text.clone(), origin: json!({"entry": e.id}) });
        }
    }
    // ... and so is a pair "description, then the same declarations with other size properties": the
    // macro expansions of one rustc process are a history of generator calls in one process, which
    // pdlc (one description per process) never has
    let mut n = n;
    if round == 0 {
        if let Some(e) = c.entries.iter().find(|e| e.id == "hand_tails") {
            out.push(Source { module: sanitize(&e.id), text: e.text.clone(), origin: json!({"entry": e.id}) });
            let s = Sibling::FixArrays(u64::MAX);
            out.push(Source { module: format!("{}_sibfix", sanitize(&e.id)), text: s.apply(&e.text), origin: json!({"entry": e.id, "sibling": s.to_json()}) });
            n += 2;
        }
    }
    let mut guard = 0;
    while out.len() < n && guard < 100 {
        guard += 1;
        let e = &c.entries[*rng.pick(&cand)];
        let (text, origin, module) = if rng.below(3) == 0 {
            let s = Sibling::draw(rng);
            (s.apply(&e.text), json!({"entry": e.id, "sibling": s.to_json()}), format!("{}_sib{}", sanitize(&e.id), out.len()))
        } else {
            (e.text.clone(), json!({"entry": e.id}), sanitize(&e.id))
        };
        if out.iter().any(|s| s.module == module) || text.contains("\"####") {
            continue;
        }
        out.push(Source { module, text, origin });
    }
    out
}

/// Write the generation directory for a round. Returns the modules that pdlc accepted.
fn write_gen(paths: &Paths, gen: &Path, sources: &[Source], rng: &mut Rng, hash_seed: u64) -> Result<Vec<String>, String> {
    let _ = std::fs::remove_dir_all(gen);
    std::fs::create_dir_all(gen).map_err(|e| e.to_string())?;
    let mut mods = Vec::new();
    for s in sources {
        let file = format!("{}.pdl", s.module);
        std::fs::write(gen.join(&file), &s.text).map_err(|e| e.to_string())?;
        let o = Command::new(paths.pdlc()).args(["--output-format", "rust", &file]).current_dir(gen).output().map_err(|e| e.to_string())?;
        if o.status.success() && !o.stdout.is_empty() {
            std::fs::write(gen.join(format!("{}.rs", s.module)), &o.stdout).map_err(|e| e.to_string())?;
            mods.push(s.module.clone());
        }
    }
    // derive modules, in a shuffled order so that expansions of different sources interleave
    let mut items: Vec<String> = Vec::new();
    for s in sources.iter().filter(|s| mods.contains(&s.module)) {
        items.push(format!("#[pdl_derive::pdl_inline(r####\"{}\"####)]\npub mod drva_{} {{}}\n", s.text, s.module));
        // the second inline module has a body of its own (the documented place for user code): what the
        // host crate has in scope around the module (sim/tierd_mods/src/lib.rs: look-alike helper traits)
        // must not reach the generated code
        items.push(format!("#[pdl_derive::pdl_inline(r####\"{}\"####)]\npub mod drvb_{} {{\n    pub const VERIF_USER_ITEM: u8 = 1;\n    pub fn verif_user_fn(b: &[u8]) -> usize {{ b.len() }}\n}}\n", s.text, s.module));
        // the file form names its source either directly or (a function of module name and hash seed, both
        // recorded) through a symbolic link followed by `..`: `<gen>/decoy/lnk` -> `<gen>/sub`, so that
        // `<gen>/decoy/lnk/../m.pdl` IS `<gen>/m.pdl` for the operating system and for pdlc, while
        // `<gen>/decoy/m.pdl` (what a textual folding of `lnk/..` would name) holds another description
        let direct = gen.join(format!("{}.pdl", s.module));
        let file_path = if (stable_hash(s.module.as_str()) ^ hash_seed) % 2 == 0 {
            direct
        } else {
            let decoy = gen.join("decoy");
            std::fs::create_dir_all(&decoy).map_err(|e| e.to_string())?;
            std::fs::create_dir_all(gen.join("sub")).map_err(|e| e.to_string())?;
            if !decoy.join("lnk").exists() {
                std::os::unix::fs::symlink(gen.join("sub"), decoy.join("lnk")).map_err(|e| e.to_string())?;
            }
            std::fs::write(decoy.join(format!("{}.pdl", s.module)), Sibling::FlipEndian.apply(&s.text)).map_err(|e| e.to_string())?;
            decoy.join("lnk").join("..").join(format!("{}.pdl", s.module))
        };
        items.push(format!("#[pdl_derive::pdl(\"{}\")]\npub mod drvf_{} {{}}\n", file_path.display(), s.module));
    }
    // (a function of the recorded hash seed alone, so that a replay expands in the same order)
    let _ = rng;
    Rng::new(hash_seed ^ 0x6f72_6465_72).shuffle(&mut items);
    // (stable) the targeted pair keeps its order: the description first, its sibling after it
    items.sort_by_key(|it| if it.contains("_hand_tails {") { 0 } else if it.contains("_hand_tails_sibfix {") { 1 } else { 2 });
    let mut text = format!("// tier D round; hash seed of the rustc process: {hash_seed}\n");
    for it in items {
        text.push_str(&it);
    }
    std::fs::write(gen.join("derive_mods.rs"), text).map_err(|e| e.to_string())?;
    Ok(mods)
}

fn build_and_run(paths: &Paths, sim_dir: &Path, gen: &Path, mods: &[String], hash_seed: u64, seed: u64, runs: u64, replay: Option<&Path>, extra: &[String]) -> Result<Value, String> {
    build_and_run_v(paths, sim_dir, gen, mods, hash_seed, seed, runs, replay, extra, "drva_,drvb_,drvf_")
}

/// The first `error` lines of a failed build, without paths (they differ between scratch copies).
fn error_excerpt(e: &str) -> String {
    let mut v: Vec<String> = Vec::new();
    for l in e.lines() {
        let t = l.trim();
        if t.starts_with("error[") || (t.starts_with("error:") && !t.contains("could not compile") && !t.contains("aborting due to")) {
            let t = t.replace("tierd_mods::", "");
            if !v.contains(&t) {
                v.push(t);
            }
        }
        if v.len() >= 3 {
            break;
        }
    }
    v.join(" | ")
}

fn build_and_run_v(paths: &Paths, sim_dir: &Path, gen: &Path, mods: &[String], hash_seed: u64, seed: u64, runs: u64, replay: Option<&Path>, extra: &[String], variants: &str) -> Result<Value, String> {
    let target = paths.build.join("sim-target");
    let o = Command::new(target.join("release/bufgen")).arg(gen).args(["--variants", variants]).args(mods).output().map_err(|e| format!("bufgen: {e}"))?;
    if !o.status.success() {
        return Err(format!("bufgen failed: {}", String::from_utf8_lossy(&o.stderr)));
    }
    let plan = gen.join("plan");
    std::fs::write(&plan, format!("seed={hash_seed}\nhash=1\n")).map_err(|e| e.to_string())?;
    let o = Command::new("cargo")
        .args(["build", "--release", "--offline", "-p", "tierd", "--target-dir"])
        .arg(&target)
        .current_dir(sim_dir)
        .env("BUFSIM_GEN", gen)
        .env("TIERD_GEN", gen)
        .env("LD_PRELOAD", paths.shim())
        .env("PDLSIM_PLAN", &plan)
        .env("PDLSIM_INHERIT", "1")
        .env("CARGO_NET_OFFLINE", "true")
        .output()
        .map_err(|e| format!("cargo: {e}"))?;
    if !o.status.success() {
        let err = String::from_utf8_lossy(&o.stderr);
        let tail: String = err.lines().rev().take(30).collect::<Vec<_>>().into_iter().rev().collect::<Vec<_>>().join("\n");
        return Err(format!("tier D crate does not build:\n{tail}"));
    }
    let mut cmd = Command::new(target.join("release/tierd"));
    match replay {
        Some(f) => cmd.arg("replay").arg(f),
        None => cmd.args(["run", &seed.to_string(), &runs.to_string()]).args(extra),
    };
    let o = cmd.env("VERIF_DIR", &paths.verif).output().map_err(|e| format!("tierd: {e}"))?;
    if !o.status.success() {
        return Err(format!("tierd exited with {}: {}", o.status, String::from_utf8_lossy(&o.stderr)));
    }
    serde_json::from_slice(&o.stdout).map_err(|e| format!("tierd output: {e}"))
}

fn sim_dir(paths: &Paths) -> PathBuf {
    PathBuf::from(std::env::var("VERIF_SIM").unwrap_or_else(|_| paths.verif.join("sim").to_string_lossy().into_owned()))
}

pub fn run_tier(paths: &Paths, c: &Corpus, seed: u64, rounds: u64, sources_per_round: usize, runs_per_family: u64, deadline: Instant, known: &Known) -> Result<TierDOutcome, String> {
    let t0 = Instant::now();
    let gen = paths.build.join("tierd-gen");
    let mut out = TierDOutcome { rounds: 0, runs: 0, wall_s: 0.0, distinct: 0, violations: vec![], known_hits: vec![], samples: vec![], stats: json!({}) };
    let mut events = 0u64;
    let mut compared = 0u64;
    let mut families: Vec<Value> = Vec::new();
    let mut hash_seeds: Vec<String> = Vec::new();
    let mut build_failures: Vec<String> = Vec::new();
    let mut edit_rounds = 0u64;
    let mut edit_compared = 0u64;
    for round in 0..rounds {
        if round > 0 && Instant::now() > deadline {
            break;
        }
        let mut rng = Rng::for_run(seed, TAG_D, round);
        let hash_seed = rng.next() | 1;
        let sources = draw_sources(&mut rng, c, sources_per_round, round);
        let mods = write_gen(paths, &gen, &sources, &mut rng, hash_seed)?;
        if mods.is_empty() {
            continue;
        }
        let res = match build_and_run(paths, &sim_dir(paths), &gen, &mods, hash_seed, seed, runs_per_family, None, &[]) {
            Ok(v) => v,
            Err(e) => {
                // generated code that does not compile is C10's business, not a C11 verdict — unless the very
                // same workload code compiles against pdlc's text alone: then the modules the macros generate
                // do not offer what pdlc's output offers for the same source (fields, methods, types)
                build_failures.push(format!("round {round}: {}", e.lines().take(6).collect::<Vec<_>>().join(" | ")));
                // (judged only for a compiler diagnostic about the code, seen again on a second attempt: a build
                // that was killed or hit a transient error says nothing about the modules)
                let persistent = !error_excerpt(&e).is_empty()
                    && matches!(build_and_run(paths, &sim_dir(paths), &gen, &mods, hash_seed, seed, 1, None, &[]), Err(ref e2) if error_excerpt(e2) == error_excerpt(&e));
                if persistent && e.contains("does not build") && build_and_run_v(paths, &sim_dir(paths), &gen, &mods, hash_seed, seed, 1, None, &[], "").is_ok() {
                    let detail = format!("the workload compiles against pdlc's output but not against the modules #[pdl]/#[pdl_inline] generate from the same sources: {}", error_excerpt(&e));
                    let sig = json!({"tier": "D", "invariant": "I6", "entry": Value::Null, "backend": "derive", "detail": detail});
                    if known.matches(&sig).is_none() && out.violations.len() < 10 {
                        let path = paths.out.join("replays").join(format!("C11-{seed}-D{round}-build.json"));
                        let doc = json!({
                            "property": "C11", "tier": "D", "seed": seed, "run": round, "history": "build_only",
                            "hash_seed_of_rustc": hash_seed.to_string(),
                            "sources": sources.iter().map(|s| json!({"module": s.module, "origin": s.origin, "text": s.text})).collect::<Vec<_>>(),
                            "violation": {"invariant": "I6", "detail": detail},
                            "replay": format!("bin/check C11 --replay {}", path.display()),
                        });
                        write_json(&path, &doc).map_err(|e| e.to_string())?;
                        out.violations.push((sig, path));
                    }
                }
                continue;
            }
        };
        out.rounds += 1;
        hash_seeds.push(hash_seed.to_string());
        out.runs += res["runs"].as_u64().unwrap_or(0);
        events += res["events"].as_u64().unwrap_or(0);
        compared += res["history_steps_compared"].as_u64().unwrap_or(0);
        out.distinct += res["distinct_histories"].as_u64().unwrap_or(0);
        for f in res["families"].as_array().cloned().unwrap_or_default() {
            families.push(f);
        }
        if out.samples.is_empty() {
            out.samples.push(json!({"tier": "D", "round": round, "hash_seed_of_rustc": hash_seed.to_string(), "sources": sources.iter().map(|s| s.origin.clone()).collect::<Vec<_>>(), "verdict": if res["violations"].as_array().map(|a| a.is_empty()).unwrap_or(true) { "held" } else { "violation" }}));
        }
        for v in res["violations"].as_array().cloned().unwrap_or_default() {
            let module = v["module"].as_str().unwrap_or("").to_string();
            let src = sources.iter().find(|s| s.module == module);
            let sig = json!({"tier": "D", "invariant": "I6", "entry": src.map(|s| s.origin["entry"].clone()).unwrap_or(json!(module)), "backend": v["variant"], "detail": v["detail"]});
            if let Some(f) = known.matches(&sig) {
                out.known_hits.push(f["what"].as_str().unwrap_or("known finding").to_string());
                continue;
            }
            if out.violations.len() < 10 {
                let path = paths.out.join("replays").join(format!("C11-{seed}-D{round}-{}.json", out.violations.len()));
                let doc = json!({
                    "property": "C11", "tier": "D", "seed": seed, "run": round,
                    "hash_seed_of_rustc": hash_seed.to_string(),
                    // all sources of the round, in order: the expansions before the diverging module are its history
                    "sources": sources.iter().map(|s| json!({"module": s.module, "origin": s.origin, "text": s.text})).collect::<Vec<_>>(),
                    "types": v["types"], "seed_values": v["seed_values"], "events": v["events"],
                    "violation": {"invariant": "I6", "module": module, "variant": v["variant"], "event": v["event"], "detail": v["detail"]},
                    "replay": format!("bin/check C11 --replay {}", path.display()),
                });
                write_json(&path, &doc).map_err(|e| e.to_string())?;
                out.violations.push((sig, path));
            }
        }
        // ---- history "edit only the .pdl file, rebuild": the file-based macro must follow the file ----
        if out.violations.is_empty() {
            let flips: Vec<&Source> = sources.iter().filter(|s| mods.contains(&s.module)).collect();
            if let Some(src) = flips.get((rng.below(flips.len().max(1) as u64)) as usize) {
                let v2 = Sibling::FlipEndian.apply(&src.text);
                let file = format!("{}.pdl", src.module);
                std::fs::write(gen.join(&file), &v2).map_err(|e| e.to_string())?;
                let o = Command::new(paths.pdlc()).args(["--output-format", "rust", &file]).current_dir(&gen).output().map_err(|e| e.to_string())?;
                if o.status.success() && !o.stdout.is_empty() {
                    std::fs::write(gen.join(format!("{}.rs", src.module)), &o.stdout).map_err(|e| e.to_string())?;
                    let extra = vec!["--only".to_string(), "drvf_".to_string(), "--module".to_string(), src.module.clone()];
                    match build_and_run(paths, &sim_dir(paths), &gen, &mods, hash_seed, seed, runs_per_family, None, &extra) {
                        Ok(res2) => {
                            edit_rounds += 1;
                            edit_compared += res2["history_steps_compared"].as_u64().unwrap_or(0);
                            for v in res2["violations"].as_array().cloned().unwrap_or_default() {
                                let detail = format!("after editing only the .pdl file (byte order flipped) and rebuilding incrementally: {}", v["detail"].as_str().unwrap_or(""));
                                let sig = json!({"tier": "D", "invariant": "I6", "entry": src.origin["entry"].clone(), "backend": v["variant"], "detail": detail});
                                if known.matches(&sig).is_some() {
                                    continue;
                                }
                                if out.violations.len() < 10 {
                                    let path = paths.out.join("replays").join(format!("C11-{seed}-D{round}-edit{}.json", out.violations.len()));
                                    let doc = json!({
                                        "property": "C11", "tier": "D", "seed": seed, "run": round, "history": "edit_and_rebuild",
                                        "hash_seed_of_rustc": hash_seed.to_string(),
                                        "sources": [{"module": src.module, "origin": src.origin, "text": src.text, "text_after_edit": v2}],
                                        "types": v["types"], "seed_values": v["seed_values"], "events": v["events"],
                                        "violation": {"invariant": "I6", "module": src.module, "variant": v["variant"], "event": v["event"], "detail": detail},
                                        "replay": format!("bin/check C11 --replay {}", path.display()),
                                    });
                                    write_json(&path, &doc).map_err(|e| e.to_string())?;
                                    out.violations.push((sig, path));
                                }
                            }
                        }
                        Err(e) => build_failures.push(format!("round {round} (edit-and-rebuild): {}", e.lines().take(6).collect::<Vec<_>>().join(" | "))),
                    }
                }
            }
        }
    }
    out.wall_s = t0.elapsed().as_secs_f64();
    out.stats = json!({
        "edit_and_rebuild_histories": edit_rounds, "edit_and_rebuild_steps_compared": edit_compared,
        "rounds": out.rounds, "rounds_requested": rounds, "wall_s": out.wall_s,
        "rustc_hash_seeds": hash_seeds,
        "module_families": families,
        "workload_runs": out.runs, "events": events, "history_steps_compared_cli_vs_derive": compared,
        "rounds_skipped_because_generated_code_did_not_build": build_failures,
        "note": "each family = pdlc text + #[pdl_inline] twice + #[pdl(file)], all expanded in one rustc process under the shim's hash stream; replay exactness of the rustc process is observed, not constructed (DESIGN.md §3.5)",
    });
    let _ = std::fs::remove_dir_all(&gen);
    Ok(out)
}

/// Replay of a tier D violation: regenerate the crate from the recorded source and hash seed.
pub fn replay(paths: &Paths, v: &Value, file: &Path) -> i32 {
    let gen = paths.build.join("tierd-gen");
    let sources: Vec<Source> = v["sources"].as_array().cloned().unwrap_or_default().iter().map(|s| Source { module: s["module"].as_str().unwrap_or("m").to_string(), text: s["text"].as_str().unwrap_or("").to_string(), origin: s["origin"].clone() }).collect();
    let hash_seed: u64 = v["hash_seed_of_rustc"].as_str().and_then(|s| s.parse().ok()).unwrap_or(1);
    let mut rng = Rng::new(hash_seed);
    let mods = match write_gen(paths, &gen, &sources, &mut rng, hash_seed) {
        Ok(m) if !m.is_empty() => m,
        _ => {
            println!("not reproduced on the current tree: pdlc no longer accepts the recorded source");
            return 0;
        }
    };
    if v["history"] == "build_only" {
        let with = build_and_run(paths, &sim_dir(paths), &gen, &mods, hash_seed, 0, 1, None, &[]);
        let without = build_and_run_v(paths, &sim_dir(paths), &gen, &mods, hash_seed, 0, 1, None, &[], "");
        let _ = std::fs::remove_dir_all(&gen);
        return match (with, without) {
            (Err(e), Ok(_)) if e.contains("does not build") => {
                println!("reproduced: invariant I6 — the workload compiles against pdlc's output but not against the macro-generated modules: {}", error_excerpt(&e));
                println!("VIOLATION property=C11 replay={}", file.display());
                1
            }
            (Ok(_), _) => {
                println!("not reproduced on the current tree");
                0
            }
            (Err(e), _) => {
                eprintln!("envsim: harness error in tier D replay: {e}");
                2
            }
        };
    }
    if v["history"] == "edit_and_rebuild" {
        // first build with the original text, then edit only the .pdl file and print the new CLI code
        if let Err(e) = build_and_run(paths, &sim_dir(paths), &gen, &mods, hash_seed, 0, 1, None, &[]) {
            eprintln!("envsim: harness error in tier D replay: {e}");
            return 2;
        }
        for s in v["sources"].as_array().cloned().unwrap_or_default() {
            let (m, t2) = (s["module"].as_str().unwrap_or("m").to_string(), s["text_after_edit"].as_str().unwrap_or("").to_string());
            let file_name = format!("{m}.pdl");
            let _ = std::fs::write(gen.join(&file_name), &t2);
            if let Ok(o) = Command::new(paths.pdlc()).args(["--output-format", "rust", &file_name]).current_dir(&gen).output() {
                let _ = std::fs::write(gen.join(format!("{m}.rs")), &o.stdout);
            }
        }
    }
    match build_and_run(paths, &sim_dir(paths), &gen, &mods, hash_seed, 0, 0, Some(file), &[]) {
        Ok(r) => {
            let _ = std::fs::remove_dir_all(&gen);
            if r["reproduced"] == true {
                println!("reproduced: invariant I6 — at recorded step {}: pdlc code gives {}, macro code gives {}", r["event"], r["cli"], r["derive"]);
                println!("VIOLATION property=C11 replay={}", file.display());
                1
            } else {
                println!("not reproduced on the current tree (recorded: {})", v["violation"]["detail"].as_str().unwrap_or(""));
                0
            }
        }
        Err(e) => {
            eprintln!("envsim: harness error in tier D replay: {e}");
            2
        }
    }
}
