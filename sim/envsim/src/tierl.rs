//! Tier L of ENV-SIM: the pdl-compiler library API inside one process (seam S2).
//!
//! A run draws 2–5 jobs, 1–3 worker threads (each a fresh hash "incarnation": its
//! RandomState keys come from the shim's stream, which the run re-seeds), a
//! SourceDatabase sharing pattern and a schedule. Exactly one thread holds the baton;
//! at every step boundary (and at every H1 yield point inside a step, when the
//! `hooks` feature is on) the PRNG picks who runs next. Real threads, parked and
//! released one at a time, so the interleaving is the simulator's and replays.
//!
//! Oracle: every step output equals the output of the same job run ALONE in a fresh
//! incarnation with its own database (I1), whatever ran before, in between, on which
//! thread, with which hash keys, and whether a neighbour panicked.

use crate::corpus::{Backend, Corpus, Sibling};
use crate::report::Known;
use crate::Paths;
use pdl_compiler::{analyzer, ast, backends, parser};
use serde_json::{json, Value};
use simcore::{stable_hash, write_json, Rng};
use std::cell::RefCell;
use std::collections::{BTreeMap, BTreeSet, HashMap};
use std::path::{Path, PathBuf};
use std::sync::mpsc::{channel, Receiver, Sender};
use std::time::Instant;

pub const TAG_L: u64 = 0x4c;

// ---------------------------------------------------------------- shim control

type ReseedFn = unsafe extern "C" fn(u64);
type SetClockFn = unsafe extern "C" fn(i64, i64, i64);
type CounterFn = unsafe extern "C" fn(i32) -> i64;
type ClockOffFn = unsafe extern "C" fn();
type RealNsFn = unsafe extern "C" fn() -> i64;
type ClockMonoFn = unsafe extern "C" fn(i32);

extern "C" {
    fn dlsym(handle: *mut std::ffi::c_void, symbol: *const std::ffi::c_char) -> *mut std::ffi::c_void;
}

pub struct ShimCtl {
    reseed: ReseedFn,
    set_clock: SetClockFn,
    counter: CounterFn,
    clock_off: ClockOffFn,
    real_ns: RealNsFn,
    clock_mono: ClockMonoFn,
}

fn shim_ctl() -> Option<ShimCtl> {
    unsafe {
        let a = dlsym(std::ptr::null_mut(), c"pdlsim_reseed".as_ptr());
        let b = dlsym(std::ptr::null_mut(), c"pdlsim_set_clock".as_ptr());
        let c = dlsym(std::ptr::null_mut(), c"pdlsim_counter".as_ptr());
        let d = dlsym(std::ptr::null_mut(), c"pdlsim_clock_off".as_ptr());
        let e = dlsym(std::ptr::null_mut(), c"pdlsim_real_ns".as_ptr());
        let f = dlsym(std::ptr::null_mut(), c"pdlsim_clock_mono".as_ptr());
        if a.is_null() || b.is_null() || c.is_null() || d.is_null() || e.is_null() || f.is_null() {
            return None;
        }
        // the baton scheduler needs real timeouts to notice a thread blocked on a lock of the
        // code under test: only the wall clock (CLOCK_REALTIME) is simulated in this tier
        let mono: ClockMonoFn = std::mem::transmute(f);
        mono(0);
        Some(ShimCtl {
            clock_mono: mono, reseed: std::mem::transmute(a), set_clock: std::mem::transmute(b), counter: std::mem::transmute(c), clock_off: std::mem::transmute(d), real_ns: std::mem::transmute(e) })
    }
}

// ---------------------------------------------------------------- jobs and steps

#[derive(Clone, Debug, PartialEq)]
pub enum StepKind {
    Parse,
    Analyze,
    Generate(Backend),
    Emit,
}

#[derive(Clone, Debug, PartialEq)]
pub struct LJob {
    pub entry_id: String,
    pub text: String,
    pub name: String,
    pub exclude: Vec<String>,
    pub custom_field: Vec<String>,
    pub steps: Vec<StepKind>,
    pub thread: usize,
    /// database group within the thread: jobs of the same (thread, group) share one SourceDatabase
    pub db_group: usize,
}

impl LJob {
    fn to_json(&self) -> Value {
        json!({
            "entry": self.entry_id, "file_name": self.name, "exclude": self.exclude, "custom_field": self.custom_field,
            "steps": self.steps.iter().map(step_name).collect::<Vec<_>>(),
            "thread": self.thread, "db_group": self.db_group, "source_text": self.text,
        })
    }
    fn from_json(v: &Value) -> Option<LJob> {
        let strs = |x: &Value| -> Vec<String> { x.as_array().map(|a| a.iter().filter_map(|s| s.as_str().map(String::from)).collect()).unwrap_or_default() };
        Some(LJob {
            entry_id: v["entry"].as_str()?.to_string(),
            text: v["source_text"].as_str()?.to_string(),
            name: v["file_name"].as_str()?.to_string(),
            exclude: strs(&v["exclude"]),
            custom_field: strs(&v["custom_field"]),
            steps: v["steps"].as_array()?.iter().filter_map(|s| step_from_name(s.as_str()?)).collect(),
            thread: v["thread"].as_u64()? as usize,
            db_group: v["db_group"].as_u64()? as usize,
        })
    }
}

fn step_name(s: &StepKind) -> String {
    match s {
        StepKind::Parse => "parse".into(),
        StepKind::Analyze => "analyze".into(),
        StepKind::Generate(b) => format!("generate:{}", b.name()),
        StepKind::Emit => "emit".into(),
    }
}

fn step_from_name(s: &str) -> Option<StepKind> {
    match s {
        "parse" => Some(StepKind::Parse),
        "analyze" => Some(StepKind::Analyze),
        "emit" => Some(StepKind::Emit),
        _ => s.strip_prefix("generate:").and_then(Backend::from_name).map(StepKind::Generate),
    }
}

/// Observable result of one step.
#[derive(Clone, Debug, PartialEq)]
pub enum Outcome {
    /// (class, payload) where payload is the full output text (generated code, JSON, rendered diagnostics)
    Ok(String),
    Rejected(String),
    Panicked,
    Skipped,
}

impl Outcome {
    fn class(&self) -> &'static str {
        match self {
            Outcome::Ok(_) => "ok",
            Outcome::Rejected(_) => "rejected",
            Outcome::Panicked => "panicked",
            Outcome::Skipped => "skipped",
        }
    }
}

/// Per-job mutable state living on the job's thread.
struct JobState {
    parsed: Option<ast::File>,
    analyzed: Option<ast::File>,
    diagnostics: Option<analyzer::Diagnostics>,
}

fn filter_declarations(file: ast::File, exclude: &[String]) -> ast::File {
    // same semantics as pdlc's main.rs (which is a binary and cannot be called)
    ast::File { declarations: file.declarations.into_iter().filter(|d| d.id().map(|id| !exclude.contains(&id.to_owned())).unwrap_or(true)).collect(), ..file }
}

fn normalise_file_id(json: &str, id: usize) -> String {
    if id == 0 {
        return json.to_string();
    }
    json.replace(&format!("\"file\":{id}"), "\"file\":0").replace(&format!("\"file\": {id}"), "\"file\": 0")
}

fn read_dir_tree(root: &Path) -> String {
    fn walk(root: &Path, rel: &str, out: &mut BTreeMap<String, String>) {
        let dir = if rel.is_empty() { root.to_path_buf() } else { root.join(rel) };
        if let Ok(rd) = std::fs::read_dir(&dir) {
            let mut names: Vec<String> = rd.filter_map(|e| e.ok()).map(|e| e.file_name().to_string_lossy().into_owned()).collect();
            names.sort();
            for n in names {
                let r = if rel.is_empty() { n.clone() } else { format!("{rel}/{n}") };
                if root.join(&r).is_dir() {
                    walk(root, &r, out);
                } else {
                    out.insert(r.clone(), std::fs::read_to_string(root.join(&r)).unwrap_or_default());
                }
            }
        }
    }
    let mut m = BTreeMap::new();
    walk(root, "", &mut m);
    let mut s = String::new();
    for (k, v) in m {
        s.push_str(&format!("=== {k} ===\n{v}\n"));
    }
    s
}

fn exec_step(job: &LJob, kind: &StepKind, st: &mut JobState, db: &mut ast::SourceDatabase, scratch: &Path) -> Outcome {
    use std::panic::{catch_unwind, AssertUnwindSafe};
    match kind {
        StepKind::Parse => {
            let r = catch_unwind(AssertUnwindSafe(|| parser::parse_inline(db, &job.name, job.text.clone())));
            match r {
                Err(_) => Outcome::Panicked,
                Ok(Ok(file)) => {
                    let file = filter_declarations(file, &job.exclude);
                    let id = file.file;
                    let out = match catch_unwind(AssertUnwindSafe(|| backends::json::generate(&file))) {
                        Ok(Ok(j)) => Outcome::Ok(normalise_file_id(&j, id)),
                        Ok(Err(e)) => Outcome::Rejected(e),
                        Err(_) => Outcome::Panicked,
                    };
                    st.parsed = Some(file);
                    st.analyzed = None;
                    st.diagnostics = None;
                    out
                }
                Ok(Err(d)) => {
                    st.parsed = None;
                    let mut buf = codespan_reporting::term::termcolor::Buffer::no_color();
                    let _ = codespan_reporting::term::emit_to_write_style(&mut buf, &codespan_reporting::term::Config::default(), db, &d);
                    Outcome::Rejected(String::from_utf8_lossy(buf.as_slice()).into_owned())
                }
            }
        }
        StepKind::Analyze => {
            let file = match &st.parsed {
                Some(f) => f,
                None => return Outcome::Skipped,
            };
            match catch_unwind(AssertUnwindSafe(|| analyzer::analyze(file))) {
                Err(_) => Outcome::Panicked,
                Ok(Ok(a)) => {
                    let id = a.file;
                    let out = match catch_unwind(AssertUnwindSafe(|| backends::json::generate(&a))) {
                        Ok(Ok(j)) => Outcome::Ok(normalise_file_id(&j, id)),
                        Ok(Err(e)) => Outcome::Rejected(e),
                        Err(_) => Outcome::Panicked,
                    };
                    st.analyzed = Some(a);
                    st.diagnostics = None;
                    out
                }
                Ok(Err(d)) => {
                    st.analyzed = None;
                    let n = d.diagnostics.len();
                    st.diagnostics = Some(d);
                    Outcome::Rejected(format!("{n} diagnostics"))
                }
            }
        }
        StepKind::Emit => {
            let d = match &st.diagnostics {
                Some(d) => d,
                None => return Outcome::Skipped,
            };
            let mut buf = codespan_reporting::term::termcolor::Buffer::no_color();
            match catch_unwind(AssertUnwindSafe(|| d.emit(db, &mut buf))) {
                Err(_) => Outcome::Panicked,
                Ok(_) => Outcome::Rejected(String::from_utf8_lossy(buf.as_slice()).into_owned()),
            }
        }
        StepKind::Generate(b) => {
            let file = match &st.analyzed {
                Some(f) => f,
                None => return Outcome::Skipped,
            };
            let db: &ast::SourceDatabase = db;
            let r = catch_unwind(AssertUnwindSafe(|| match b {
                Backend::Json => backends::json::generate(st.parsed.as_ref().unwrap()).map(|j| normalise_file_id(&j, file.file)),
                Backend::Rust => Ok(backends::rust::generate(db, file, &job.custom_field)),
                Backend::Python => Ok(backends::python::generate(db, file, job.custom_field.first().map(String::as_str), &job.exclude)),
                Backend::Cxx => Ok(backends::cxx::generate(db, file, None, &[], &[], &job.exclude)),
                Backend::Java => {
                    let dir = scratch.join(format!("jout-{:?}", std::thread::current().id()).replace(['(', ')'], ""));
                    let _ = std::fs::remove_dir_all(&dir);
                    let r = backends::java::generate(db, file, &job.custom_field, &dir, "verif.gen");
                    let tree = read_dir_tree(&dir);
                    let _ = std::fs::remove_dir_all(&dir);
                    r.map(|_| tree)
                }
            }));
            match r {
                Err(_) => Outcome::Panicked,
                Ok(Ok(s)) => Outcome::Ok(s),
                Ok(Err(e)) => Outcome::Rejected(e),
            }
        }
    }
}

// ---------------------------------------------------------------- baton scheduler

enum Cmd {
    Step { job: usize, step: usize },
    Resume,
    Quit,
}

enum Event {
    Done { thread: usize, job: usize, step: usize, outcome: Outcome },
    Yielded { thread: usize, site: &'static str },
}

thread_local! {
    static MY_INDEX: std::cell::Cell<usize> = const { std::cell::Cell::new(0) };
}

thread_local! {
    static BATON: RefCell<Option<(Sender<Event>, Receiver<Cmd>)>> = const { RefCell::new(None) };
}

/// Called from H1 yield points inside pdl-compiler (feature `hooks`).
#[allow(dead_code)]
fn yield_hook(site: &'static str) {
    BATON.with(|b| {
        if let Some((tx, rx)) = b.borrow().as_ref() {
            if tx.send(Event::Yielded { thread: MY_INDEX.with(|m| m.get()), site }).is_ok() {
                // wait until the scheduler hands the baton back
                loop {
                    match rx.recv() {
                        Ok(Cmd::Resume) => break,
                        Ok(_) => continue,
                        Err(_) => break,
                    }
                }
            }
        }
    });
}

#[derive(Clone, Debug)]
pub struct SchedEntry {
    pub thread: usize,
    /// Some((job, step)) = start that step; None = resume the thread at its yield point
    pub start: Option<(usize, usize)>,
}

pub struct RunPlan {
    pub jobs: Vec<LJob>,
    pub nthreads: usize,
    pub hash_seed: u64,
    pub clock: Option<(i64, i64, i64)>,
    /// number of unrelated files pre-loaded into each shared database
    pub preload: usize,
    /// explicit schedule (replay) or None (draw from rng)
    pub schedule: Option<Vec<SchedEntry>>,
    pub yields_on: bool,
}

pub struct RunTrace {
    /// a thread stayed silent for BLOCK_TIMEOUT while holding the baton: it is blocked on a lock
    /// of the code under test held by a parked thread (the schedule is then no longer exact)
    pub blocked_seen: u64,
    /// nobody could make progress any more
    pub deadlock: bool,
    pub outcomes: Vec<Vec<Outcome>>, // [job][step]
    pub schedule: Vec<SchedEntry>,
    pub yield_switches: u64,
    pub yields_seen: u64,
    pub panics: u64,
}

fn thread_main(my: usize, jobs: Vec<LJob>, preload: usize, scratch: PathBuf, tx: Sender<Event>, rx: Receiver<Cmd>) {
    // the baton lives in a thread-local so that H1 yield points inside pdl-compiler can reach it
    BATON.with(|b| *b.borrow_mut() = Some((tx.clone(), rx)));
    MY_INDEX.with(|m| m.set(my));
    let mut dbs: BTreeMap<usize, ast::SourceDatabase> = BTreeMap::new();
    let mut states: BTreeMap<usize, JobState> = BTreeMap::new();
    for (i, j) in jobs.iter().enumerate() {
        if j.thread == my {
            states.insert(i, JobState { parsed: None, analyzed: None, diagnostics: None });
            dbs.entry(j.db_group).or_insert_with(|| {
                let mut db = ast::SourceDatabase::new();
                for k in 0..preload {
                    db.add(format!("preloaded_{k}.pdl"), format!("little_endian_packets\npacket Unrelated{k} {{ a: 8 }}\n"));
                }
                db
            });
        }
    }
    loop {
        let cmd = BATON.with(|b| b.borrow().as_ref().and_then(|(_, r)| r.recv().ok()));
        match cmd {
            Some(Cmd::Step { job, step }) => {
                let j = &jobs[job];
                let st = states.get_mut(&job).expect("job state");
                let db = dbs.get_mut(&j.db_group).expect("db");
                let outcome = exec_step(j, &j.steps[step], st, db, &scratch);
                if tx.send(Event::Done { thread: my, job, step, outcome }).is_err() {
                    break;
                }
            }
            Some(Cmd::Resume) => {}
            Some(Cmd::Quit) | None => break,
        }
    }
    BATON.with(|b| *b.borrow_mut() = None);
}

fn probe_order() -> u64 {
    // iteration order of a 6-entry map created in this incarnation
    let mut m: HashMap<u32, u32> = HashMap::new();
    for i in 0..6 {
        m.insert(i, i);
    }
    stable_hash(&m.keys().copied().collect::<Vec<u32>>())
}

/// Execute a plan under the baton scheduler. `rng` decides the schedule unless the plan has one.
pub fn run_plan(plan: &RunPlan, rng: &mut Rng, ctl: Option<&ShimCtl>, scratch: &Path, probes: &mut BTreeSet<u64>) -> RunTrace {
    if let Some(c) = ctl {
        unsafe {
            (c.reseed)(plan.hash_seed);
            match plan.clock {
                Some((b, s, j)) => (c.set_clock)(b, s, j),
                None => (c.clock_off)(),
            }
        }
    }
    let n = plan.nthreads;
    let mut cmd_tx: Vec<Sender<Cmd>> = Vec::new();
    let (ev_tx, ev_rx) = channel::<Event>();
    let mut handles = Vec::new();
    // threads are created in order, each draws its hash keys when it first builds a map,
    // which happens while it holds the baton: the key assignment is a function of the schedule
    for t in 0..n {
        let (tx, rx) = channel::<Cmd>();
        cmd_tx.push(tx);
        let jobs = plan.jobs.clone();
        let ev = ev_tx.clone();
        let scratch = scratch.to_path_buf();
        let preload = plan.preload;
        handles.push(std::thread::Builder::new().name(format!("sim-{t}")).stack_size(16 << 20).spawn(move || thread_main(t, jobs, preload, scratch, ev, rx)).expect("spawn"));
    }
    drop(ev_tx);
    let _ = plan.yields_on;

    let mut next_step: Vec<usize> = vec![0; plan.jobs.len()];
    let mut outcomes: Vec<Vec<Outcome>> = plan.jobs.iter().map(|j| vec![Outcome::Skipped; j.steps.len()]).collect();
    #[derive(PartialEq, Clone, Copy)]
    enum TState {
        Idle,
        Yielded,
        Busy,
    }
    let mut tstate = vec![TState::Idle; n];
    let mut schedule: Vec<SchedEntry> = Vec::new();
    let mut replay_pos = 0usize;
    let mut yield_switches = 0u64;
    let mut yields_seen = 0u64;
    let mut panics = 0u64;
    let mut blocked_seen = 0u64;
    let mut deadlock = false;
    let mut last_thread: Option<usize> = None;
    let mut running: Option<usize> = None; // the thread that holds the baton
    let mut blocked: BTreeSet<usize> = BTreeSet::new();
    let mut guard = 0u64;
    const BLOCK_TIMEOUT: std::time::Duration = std::time::Duration::from_secs(45);
    loop {
        guard += 1;
        if guard > 400_000 {
            break;
        }
        if running.is_none() {
            // runnable choices
            let mut choices: Vec<SchedEntry> = Vec::new();
            for t in 0..n {
                match tstate[t] {
                    TState::Busy => {}
                    TState::Yielded => choices.push(SchedEntry { thread: t, start: None }),
                    TState::Idle => {
                        for (ji, j) in plan.jobs.iter().enumerate() {
                            if j.thread == t && next_step[ji] < j.steps.len() {
                                choices.push(SchedEntry { thread: t, start: Some((ji, next_step[ji])) });
                            }
                        }
                    }
                }
            }
            if choices.is_empty() {
                if blocked.is_empty() {
                    break;
                }
                // only blocked threads remain: wait for one of them to come back
                match ev_rx.recv_timeout(BLOCK_TIMEOUT) {
                    Ok(ev) => {
                        let t = match &ev {
                            Event::Done { thread, .. } | Event::Yielded { thread, .. } => *thread,
                        };
                        blocked.remove(&t);
                        match ev {
                            Event::Done { thread, job, step, outcome } => {
                                if outcome == Outcome::Panicked {
                                    panics += 1;
                                }
                                outcomes[job][step] = outcome;
                                tstate[thread] = TState::Idle;
                            }
                            Event::Yielded { thread, .. } => {
                                yields_seen += 1;
                                tstate[thread] = TState::Yielded;
                            }
                        }
                        continue;
                    }
                    Err(_) => {
                        deadlock = true;
                        break;
                    }
                }
            }
            let pick = match &plan.schedule {
                Some(s) => {
                    // follow the recorded schedule as long as it is applicable, then fall back to first choice
                    let mut chosen = None;
                    while replay_pos < s.len() && chosen.is_none() {
                        let want = &s[replay_pos];
                        replay_pos += 1;
                        chosen = choices.iter().find(|c| c.thread == want.thread && c.start == want.start).cloned();
                    }
                    chosen.unwrap_or_else(|| choices[0].clone())
                }
                None => {
                    // bias: 1 in 3 keep running the same thread if possible (long stretches), else uniform
                    let same: Vec<&SchedEntry> = choices.iter().filter(|c| Some(c.thread) == last_thread).collect();
                    if !same.is_empty() && rng.below(3) == 0 {
                        (*rng.pick(&same)).clone()
                    } else {
                        rng.pick(&choices).clone()
                    }
                }
            };
            if last_thread.is_some() && last_thread != Some(pick.thread) && tstate.iter().any(|s| *s == TState::Yielded) {
                yield_switches += 1;
            }
            last_thread = Some(pick.thread);
            schedule.push(pick.clone());
            match pick.start {
                Some((job, step)) => {
                    next_step[job] = step + 1;
                    let _ = cmd_tx[pick.thread].send(Cmd::Step { job, step });
                }
                None => {
                    let _ = cmd_tx[pick.thread].send(Cmd::Resume);
                }
            }
            tstate[pick.thread] = TState::Busy;
            running = Some(pick.thread);
        }
        // wait for the baton to come back (nobody else can run, unless a blocked thread wakes up)
        match ev_rx.recv_timeout(BLOCK_TIMEOUT) {
            Ok(ev) => {
                let t = match &ev {
                    Event::Done { thread, .. } | Event::Yielded { thread, .. } => *thread,
                };
                blocked.remove(&t);
                if running == Some(t) {
                    running = None;
                }
                match ev {
                    Event::Done { thread, job, step, outcome } => {
                        if outcome == Outcome::Panicked {
                            panics += 1;
                        }
                        outcomes[job][step] = outcome;
                        tstate[thread] = TState::Idle;
                    }
                    Event::Yielded { thread, .. } => {
                        yields_seen += 1;
                        tstate[thread] = TState::Yielded;
                    }
                }
            }
            Err(std::sync::mpsc::RecvTimeoutError::Timeout) => {
                if let Some(t) = running.take() {
                    // silent for too long: blocked on something a parked thread holds
                    blocked.insert(t);
                    blocked_seen += 1;
                }
            }
            Err(std::sync::mpsc::RecvTimeoutError::Disconnected) => break,
        }
    }
    if deadlock {
        // threads of this run can never be joined: the worker process must end after reporting
        return RunTrace { blocked_seen, deadlock, outcomes, schedule, yield_switches, yields_seen, panics };
    }
    for tx in &cmd_tx {
        let _ = tx.send(Cmd::Quit);
    }
    for h in handles {
        let _ = h.join();
    }
    // reach canary for the hash seam: probe map order in a fresh incarnation after the run
    let h = std::thread::spawn(probe_order).join().unwrap_or(0);
    probes.insert(h);
    RunTrace { blocked_seen, deadlock, outcomes, schedule, yield_switches, yields_seen, panics }
}

// ---------------------------------------------------------------- drawing a run

fn draw_steps(rng: &mut Rng, backends: &[Backend]) -> Vec<StepKind> {
    let mut v = vec![StepKind::Parse];
    if rng.below(6) == 0 {
        v.push(StepKind::Parse); // parse again into the same database (file ids grow)
    }
    v.push(StepKind::Analyze);
    if rng.below(5) == 0 {
        v.push(StepKind::Analyze);
    }
    v.push(StepKind::Emit);
    for b in backends {
        v.push(StepKind::Generate(*b));
        if rng.below(5) == 0 {
            v.push(StepKind::Generate(*b));
        }
    }
    if rng.below(6) == 0 {
        // full second pass
        v.push(StepKind::Analyze);
        v.push(StepKind::Generate(*rng.pick(backends)));
    }
    v
}

fn make_job(rng: &mut Rng, c: &Corpus, entry: usize, sibling: Option<&Sibling>, thread: usize, db_group: usize, crasher: bool) -> LJob {
    let e = &c.entries[entry];
    let text = match sibling {
        Some(s) => s.apply(&e.text),
        None => e.text.clone(),
    };
    let has_opts = !e.opts.is_empty();
    let (backends, exclude, custom_field) = if has_opts {
        let b = *rng.pick(&crate::corpus::BACKENDS);
        let o = e.opts_for(b);
        if crasher {
            (vec![b], vec![], o.custom_field)
        } else {
            (vec![b], o.exclude, o.custom_field)
        }
    } else {
        let mut bs: Vec<Backend> = crate::corpus::BACKENDS.to_vec();
        rng.shuffle(&mut bs);
        let k = rng.range(1, 3) as usize;
        bs.truncate(k);
        (bs, vec![], vec![])
    };
    LJob { entry_id: e.id.clone(), text, name: format!("src/{}.pdl", e.id), exclude, custom_field, steps: draw_steps(rng, &backends), thread, db_group }
}

pub fn draw_plan(rng: &mut Rng, c: &Corpus, yields_on: bool) -> RunPlan {
    let nthreads = rng.range(1, 3) as usize;
    let njobs = rng.range(2, 5) as usize;
    let small: Vec<usize> = c.entries.iter().enumerate().filter(|(_, e)| e.text.len() < 20_000).map(|(i, _)| i).collect();
    let mut jobs = Vec::new();
    let share_db = rng.below(2) == 0;
    let mut k = 0;
    while jobs.len() < njobs {
        // big entries are expensive in-process: 1 in 8 jobs
        let entry = if rng.below(8) == 0 { rng.below(c.entries.len() as u64) as usize } else { *rng.pick(&small) };
        let thread = rng.below(nthreads as u64) as usize;
        let group = if share_db { 0 } else { k };
        k += 1;
        let crasher = rng.below(10) == 0;
        let sib = if rng.below(4) == 0 { Some(Sibling::draw(rng)) } else { None };
        jobs.push(make_job(rng, c, entry, sib.as_ref(), thread, group, crasher));
        // companions: the same identifiers with other bodies / other order, to expose per-identifier
        // or per-structure caches; placed on any thread
        if jobs.len() < njobs && rng.below(2) == 0 {
            let s = Sibling::draw(rng);
            let thread2 = rng.below(nthreads as u64) as usize;
            let group2 = if share_db { 0 } else { k };
            k += 1;
            jobs.push(make_job(rng, c, entry, Some(&s), thread2, group2, false));
        }
    }
    // the panicking neighbour, targeted per backend: a job whose generate step stops with a panic
    // inside the generator (only process-global and thread-local state survives it)
    if rng.below(4) == 0 {
        let (id, b) = *rng.pick(&[("hand_crash_rust", Backend::Rust), ("hand_crash_python", Backend::Python), ("hand_crash_rust", Backend::Java), ("hand_crash_python", Backend::Java)]);
        if let Some(e) = c.entries.iter().find(|e| e.id == id) {
            let thread = rng.below(nthreads as u64) as usize;
            let group = if share_db { 0 } else { k };
            jobs.insert(
                rng.below(jobs.len() as u64 + 1) as usize,
                LJob { entry_id: e.id.clone(), text: e.text.clone(), name: format!("src/{}.pdl", e.id), exclude: vec![], custom_field: vec![], steps: vec![StepKind::Parse, StepKind::Analyze, StepKind::Generate(b)], thread, db_group: group },
            );
        }
    }
    let clock = if rng.below(2) == 0 { Some((rng.range(0, 4_102_444_800) as i64, *rng.pick(&[0i64, 1000, 86_400_000_000_000]), *rng.pick(&[0i64, 3, 7]))) } else { None };
    RunPlan { jobs, nthreads, hash_seed: rng.next() | 1, clock, preload: if rng.below(3) == 0 { rng.range(1, 4) as usize } else { 0 }, schedule: None, yields_on }
}

// ---------------------------------------------------------------- reference + oracle

pub struct RefMemo {
    map: HashMap<u64, std::sync::Arc<Vec<Outcome>>>,
    bytes: usize,
}

fn reference(memo: &mut RefMemo, job: &LJob, ctl: Option<&ShimCtl>, scratch: &Path, probes: &mut BTreeSet<u64>) -> std::sync::Arc<Vec<Outcome>> {
    let key = stable_hash(&(&job.text, &job.name, &job.exclude, &job.custom_field, job.steps.iter().map(step_name).collect::<Vec<_>>()));
    if let Some(r) = memo.map.get(&key) {
        return r.clone();
    }
    let solo = LJob { thread: 0, db_group: 0, ..job.clone() };
    let plan = RunPlan { jobs: vec![solo], nthreads: 1, hash_seed: 0x5eed, clock: None, preload: 0, schedule: Some(vec![]), yields_on: false };
    let mut dummy = Rng::new(0);
    let tr = run_plan(&plan, &mut dummy, ctl, scratch, probes);
    let out = std::sync::Arc::new(tr.outcomes.into_iter().next().unwrap());
    let sz: usize = out.iter().map(|o| match o { Outcome::Ok(s) | Outcome::Rejected(s) => s.len(), _ => 8 }).sum();
    if memo.bytes > 512 << 20 {
        memo.map.clear();
        memo.bytes = 0;
    }
    memo.bytes += sz;
    memo.map.insert(key, out.clone());
    out
}

#[derive(Clone, Debug)]
pub struct LViolation {
    pub job: usize,
    pub step: usize,
    pub detail: String,
}

/// I1 over all steps. Diagnostics text of rejected sources is outside the property's
/// quantifier ("accepted descriptions"): for those only the verdict class is compared.
fn compare(plan: &RunPlan, trace: &RunTrace, refs: &[std::sync::Arc<Vec<Outcome>>], canary_diag: &mut u64) -> Option<LViolation> {
    if trace.deadlock {
        return Some(LViolation {
            job: 0,
            step: 0,
            detail: "no thread can make progress any more: every runnable compilation is blocked on a lock of the code under test (all parked lock holders were resumed first) — the compilations of this history never complete".into(),
        });
    }
    for (ji, job) in plan.jobs.iter().enumerate() {
        for (si, kind) in job.steps.iter().enumerate() {
            let got = &trace.outcomes[ji][si];
            let want = &refs[ji][si];
            if got.class() != want.class() {
                return Some(LViolation {
                    job: ji,
                    step: si,
                    detail: format!("step {} of job {} ({}): alone it is '{}', in this history it is '{}'", step_name(kind), ji, job.entry_id, want.class(), got.class()),
                });
            }
            match (got, want) {
                (Outcome::Ok(a), Outcome::Ok(b)) if a != b => {
                    let at = simcore::first_diff(a.as_bytes(), b.as_bytes()).unwrap_or(0);
                    return Some(LViolation {
                        job: ji,
                        step: si,
                        detail: format!(
                            "step {} of job {} ({}): output differs from the same compilation run alone at byte {at} (len {} vs {}); alone: {:?} / here: {:?}",
                            step_name(kind),
                            ji,
                            job.entry_id,
                            b.len(),
                            a.len(),
                            simcore::excerpt(b.as_bytes(), at),
                            simcore::excerpt(a.as_bytes(), at)
                        ),
                    });
                }
                (Outcome::Rejected(a), Outcome::Rejected(b)) if a != b => {
                    *canary_diag += 1;
                }
                _ => {}
            }
        }
    }
    None
}

// ---------------------------------------------------------------- one run, minimisation, replay

pub struct LRunResult {
    pub violation: Option<(LViolation, RunPlan, RunTrace)>,
    pub digest: u64,
    pub plan_digest: u64,
    pub steps: u64,
    pub jobs: u64,
    pub threads: u64,
    pub yield_switches: u64,
    pub yields_seen: u64,
    pub panics: u64,
    pub shared_db: bool,
    pub preload: bool,
    pub sched_hash: u64,
    pub nontrivial: bool,
    pub sample: Option<Value>,
    pub canary_diag: u64,
    pub blocked_seen: u64,
    pub deadlock: bool,
}

fn plan_to_json(plan: &RunPlan, schedule: &[SchedEntry]) -> Value {
    json!({
        "threads": plan.nthreads,
        "hash_seed": plan.hash_seed.to_string(),
        "clock": plan.clock.map(|(b, s, j)| json!([b, s, j])),
        "preload": plan.preload,
        "yields_on": plan.yields_on,
        "jobs": plan.jobs.iter().map(|j| j.to_json()).collect::<Vec<_>>(),
        "schedule": schedule.iter().map(|e| match e.start { Some((j, s)) => json!([e.thread, j, s]), None => json!([e.thread, "resume"]) }).collect::<Vec<_>>(),
    })
}

fn plan_from_json(v: &Value) -> Option<RunPlan> {
    let jobs: Vec<LJob> = v["jobs"].as_array()?.iter().filter_map(LJob::from_json).collect();
    let schedule: Vec<SchedEntry> = v["schedule"]
        .as_array()?
        .iter()
        .filter_map(|e| {
            let t = e[0].as_u64()? as usize;
            if e[1].is_string() {
                Some(SchedEntry { thread: t, start: None })
            } else {
                Some(SchedEntry { thread: t, start: Some((e[1].as_u64()? as usize, e[2].as_u64()? as usize)) })
            }
        })
        .collect();
    Some(RunPlan {
        jobs,
        nthreads: v["threads"].as_u64()? as usize,
        hash_seed: v["hash_seed"].as_str()?.parse().ok()?,
        clock: v["clock"].as_array().and_then(|a| Some((a[0].as_i64()?, a[1].as_i64()?, a[2].as_i64()?))),
        preload: v["preload"].as_u64()? as usize,
        schedule: Some(schedule),
        yields_on: v["yields_on"].as_bool().unwrap_or(false),
    })
}

struct Env<'a> {
    ctl: Option<&'a ShimCtl>,
    scratch: &'a Path,
    memo: RefMemo,
    probes: BTreeSet<u64>,
}

fn evaluate(env: &mut Env, plan: &RunPlan, rng: &mut Rng, canary: &mut u64) -> (Option<LViolation>, RunTrace) {
    let refs: Vec<_> = plan.jobs.iter().map(|j| reference(&mut env.memo, j, env.ctl, env.scratch, &mut env.probes)).collect();
    let trace = run_plan(plan, rng, env.ctl, env.scratch, &mut env.probes);
    let v = compare(plan, &trace, &refs, canary);
    (v, trace)
}

fn with_schedule(plan: &RunPlan, sched: Vec<SchedEntry>) -> RunPlan {
    RunPlan { jobs: plan.jobs.clone(), nthreads: plan.nthreads, hash_seed: plan.hash_seed, clock: plan.clock, preload: plan.preload, schedule: Some(sched), yields_on: plan.yields_on }
}

/// Greedy minimisation: drop jobs, drop steps, collapse threads, canonical hash/clock/preload.
fn minimise(env: &mut Env, plan: &RunPlan, trace: &RunTrace, v: &LViolation) -> (RunPlan, LViolation, u32) {
    let mut best = with_schedule(plan, trace.schedule.clone());
    let mut best_v = v.clone();
    let mut steps = 0u32;
    let mut canary = 0u64;
    let mut dummy = Rng::new(0);
    let target_entry = plan.jobs[v.job].entry_id.clone();
    let mut still = |env: &mut Env, cand: &RunPlan| -> Option<LViolation> {
        let (vv, _) = evaluate(env, cand, &mut dummy, &mut canary);
        vv.filter(|x| cand.jobs[x.job].entry_id == target_entry)
    };
    // drop whole jobs
    let mut i = 0;
    while best.jobs.len() > 1 && i < best.jobs.len() {
        let mut cand = with_schedule(&best, vec![]);
        let removed = i;
        cand.jobs.remove(removed);
        let sched: Vec<SchedEntry> = best
            .schedule
            .as_ref()
            .unwrap()
            .iter()
            .filter_map(|e| match e.start {
                Some((j, _)) if j == removed => None,
                Some((j, s)) if j > removed => Some(SchedEntry { thread: e.thread, start: Some((j - 1, s)) }),
                _ => Some(e.clone()),
            })
            .collect();
        cand.schedule = Some(sched);
        if let Some(vv) = still(env, &cand) {
            best = cand;
            best_v = vv;
            steps += 1;
        } else {
            i += 1;
        }
    }
    // drop trailing steps of each job, then individual repeated steps
    for ji in 0..best.jobs.len() {
        loop {
            let n = best.jobs[ji].steps.len();
            if n <= 1 {
                break;
            }
            let mut cand = with_schedule(&best, best.schedule.clone().unwrap());
            cand.jobs[ji].steps.pop();
            if let Some(vv) = still(env, &cand) {
                best = cand;
                best_v = vv;
                steps += 1;
            } else {
                break;
            }
        }
    }
    // single thread
    if best.nthreads > 1 {
        let mut cand = with_schedule(&best, best.schedule.clone().unwrap().into_iter().map(|e| SchedEntry { thread: 0, start: e.start }).collect());
        cand.nthreads = 1;
        for j in cand.jobs.iter_mut() {
            j.thread = 0;
        }
        if let Some(vv) = still(env, &cand) {
            best = cand;
            best_v = vv;
            steps += 1;
        }
    }
    // canonical perturbations
    for what in 0..3 {
        let mut cand = with_schedule(&best, best.schedule.clone().unwrap());
        match what {
            0 => cand.hash_seed = 0x5eed,
            1 => cand.clock = None,
            _ => cand.preload = 0,
        }
        if let Some(vv) = still(env, &cand) {
            best = cand;
            best_v = vv;
            steps += 1;
        }
    }
    // own databases
    {
        let mut cand = with_schedule(&best, best.schedule.clone().unwrap());
        for (k, j) in cand.jobs.iter_mut().enumerate() {
            j.db_group = k;
        }
        if let Some(vv) = still(env, &cand) {
            best = cand;
            best_v = vv;
            steps += 1;
        }
    }
    (best, best_v, steps)
}

fn run_one(env: &mut Env, corpus: &Corpus, seed: u64, run: u64, yields_on: bool) -> LRunResult {
    let mut rng = Rng::for_run(seed, TAG_L, run);
    let plan = draw_plan(&mut rng, corpus, yields_on);
    let mut canary = 0u64;
    let (v, trace) = evaluate(env, &plan, &mut rng, &mut canary);
    let steps: u64 = plan.jobs.iter().map(|j| j.steps.len() as u64).sum();
    let sched_hash = stable_hash(&trace.schedule.iter().map(|e| (e.thread, e.start)).collect::<Vec<_>>());
    let out_hash = stable_hash(&trace.outcomes.iter().map(|js| js.iter().map(|o| match o { Outcome::Ok(s) | Outcome::Rejected(s) => stable_hash(s), Outcome::Panicked => 1, Outcome::Skipped => 2 }).collect::<Vec<_>>()).collect::<Vec<_>>());
    // a run in which a thread really blocked is not schedule-exact: keep it out of the determinism proof
    let plan_digest = stable_hash(&(run, plan.nthreads, plan.hash_seed, plan.preload, plan.jobs.iter().map(|j| (j.entry_id.clone(), stable_hash(&j.text), j.thread, j.db_group, j.steps.iter().map(step_name).collect::<Vec<_>>())).collect::<Vec<_>>()));
    let digest = if trace.blocked_seen > 0 { stable_hash(&(run, "blocked")) } else { stable_hash(&(run, sched_hash, out_hash, v.as_ref().map(|x| x.detail.clone()))) };
    let shared_db = {
        let mut seen = BTreeSet::new();
        plan.jobs.iter().any(|j| !seen.insert((j.thread, j.db_group)))
    };
    let multi_decl = plan.jobs.iter().any(|j| j.text.matches('{').count() >= 2);
    let sample = if run % 97 == 5 {
        let mut pj = plan_to_json(&plan, &trace.schedule);
        for j in pj["jobs"].as_array_mut().unwrap() {
            j.as_object_mut().unwrap().remove("source_text");
        }
        Some(json!({"tier": "L", "run": run, "plan": pj, "panicking_neighbours": trace.panics, "yield_points_hit": trace.yields_seen, "verdict": if v.is_some() { "violation" } else { "held" }}))
    } else {
        None
    };
    LRunResult {
        digest,
        plan_digest,
        steps,
        jobs: plan.jobs.len() as u64,
        threads: plan.nthreads as u64,
        yield_switches: trace.yield_switches,
        yields_seen: trace.yields_seen,
        panics: trace.panics,
        shared_db,
        preload: plan.preload > 0,
        sched_hash,
        nontrivial: multi_decl && plan.jobs.len() >= 2,
        sample,
        canary_diag: canary,
        blocked_seen: trace.blocked_seen,
        deadlock: trace.deadlock,
        violation: v.map(|x| (x, plan, trace)),
    }
}

// ---------------------------------------------------------------- worker process

fn arg<'a>(args: &'a [String], name: &str) -> Option<&'a str> {
    args.iter().position(|a| a == name).and_then(|i| args.get(i + 1)).map(|s| s.as_str())
}

/// `envsim l-worker --seed S --from A --to B --stride K --out FILE [--replay FILE]`
/// Runs indices A, A+K, A+2K … < B and writes one JSON line per run.
pub fn worker_main(args: &[String]) -> i32 {
    std::panic::set_hook(Box::new(|_| {})); // panics of the code under test are outcomes, not noise
    let paths = Paths::from_env();
    let corpus = match Corpus::load(&paths.verif.join("corpus")) {
        Ok(c) => c,
        Err(e) => {
            eprintln!("l-worker: {e}");
            return 2;
        }
    };
    let ctl = shim_ctl();
    if ctl.is_none() {
        eprintln!("l-worker: shim control symbols not found (not started under the shim)");
        return 2;
    }
    #[cfg(feature = "hooks")]
    pdl_compiler::verif_sim::set_hook(Some(yield_hook));
    let yields_on = cfg!(feature = "hooks");
    let out_path = PathBuf::from(arg(args, "--out").unwrap_or("/dev/null"));
    let scratch = out_path.with_extension("scratch");
    let _ = std::fs::create_dir_all(&scratch);
    let mut env = Env { ctl: ctl.as_ref(), scratch: &scratch, memo: RefMemo { map: HashMap::new(), bytes: 0 }, probes: BTreeSet::new() };
    let mut lines: Vec<String> = Vec::new();

    if let Some(rp) = arg(args, "--replay") {
        let v: Value = match std::fs::read_to_string(rp).ok().and_then(|s| serde_json::from_str(&s).ok()) {
            Some(v) => v,
            None => return 2,
        };
        let plan = match plan_from_json(&v["plan"]) {
            Some(p) => p,
            None => return 2,
        };
        let mut canary = 0;
        let mut dummy = Rng::new(0);
        let (viol, _) = evaluate(&mut env, &plan, &mut dummy, &mut canary);
        let _ = std::fs::remove_dir_all(&scratch);
        return match viol {
            Some(x) => {
                println!("reproduced: invariant I1 — {}", x.detail);
                1
            }
            None => {
                println!("not reproduced on the current tree (recorded: {})", v["violation"]["detail"].as_str().unwrap_or(""));
                0
            }
        };
    }

    let seed: u64 = arg(args, "--seed").and_then(|s| s.parse().ok()).unwrap_or(1);
    let from: u64 = arg(args, "--from").and_then(|s| s.parse().ok()).unwrap_or(0);
    let to: u64 = arg(args, "--to").and_then(|s| s.parse().ok()).unwrap_or(0);
    let stride: u64 = arg(args, "--stride").and_then(|s| s.parse().ok()).unwrap_or(1);
    let deadline_s: u64 = arg(args, "--deadline-s").and_then(|s| s.parse().ok()).unwrap_or(u64::MAX / 4);
    // wall-clock budget measured on the REAL clock (the simulated one belongs to the code under test)
    let real_s = |c: &ShimCtl| unsafe { (c.real_ns)() / 1_000_000_000 } as u64;
    let t0 = real_s(ctl.as_ref().unwrap());
    let mut i = from;
    let mut nviol = 0;
    while i < to {
        if real_s(ctl.as_ref().unwrap()).saturating_sub(t0) > deadline_s {
            break;
        }
        let r = run_one(&mut env, &corpus, seed, i, yields_on);
        let mut line = json!({
            "run": i, "digest": r.digest.to_string(), "plan_digest": r.plan_digest.to_string(), "steps": r.steps, "jobs": r.jobs, "threads": r.threads,
            "yield_switches": r.yield_switches, "yields_seen": r.yields_seen, "panics": r.panics, "shared_db": r.shared_db, "preload": r.preload,
            "sched_hash": r.sched_hash.to_string(), "nontrivial": r.nontrivial, "canary_diag": r.canary_diag, "blocked_seen": r.blocked_seen,
        });
        let deadlocked = r.deadlock;
        if let Some(s) = r.sample {
            line["sample"] = s;
        }
        if let Some((v, plan, trace)) = r.violation {
            nviol += 1;
            if nviol <= 3 && !deadlocked {
                let (mp, mv, msteps) = minimise(&mut env, &plan, &trace, &v);
                let sched = mp.schedule.clone().unwrap_or_default();
                line["violation"] = json!({
                    "invariant": "I1", "detail": mv.detail, "entry": mp.jobs[mv.job].entry_id, "step": step_name(&mp.jobs[mv.job].steps[mv.step]),
                    "plan": plan_to_json(&mp, &sched), "minimisation_steps": msteps,
                    "original_plan": plan_to_json(&plan, &trace.schedule),
                });
            } else {
                line["violation"] = json!({
                    "invariant": "I1", "detail": v.detail, "entry": plan.jobs[v.job].entry_id, "step": step_name(&plan.jobs[v.job].steps[v.step]),
                    "plan": plan_to_json(&plan, &trace.schedule), "minimisation_steps": 0,
                });
            }
        }
        lines.push(line.to_string());
        i += stride;
        if deadlocked {
            // the threads of that run can never be joined: report what we have and end this worker
            break;
        }
    }
    let counters = ctl.as_ref().map(|c| unsafe { ((c.counter)(0), (c.counter)(1)) }).unwrap_or((0, 0));
    lines.push(json!({"summary": true, "probe_orders": env.probes.iter().map(|p| p.to_string()).collect::<Vec<_>>(), "getrandom_calls": counters.0, "clock_reads": counters.1}).to_string());
    let _ = std::fs::remove_dir_all(&scratch);
    if std::fs::write(&out_path, lines.join("\n") + "\n").is_err() {
        return 2;
    }
    // (exit, not return: parked threads of a deadlocked run must not keep the process alive)
    std::process::exit(0)
}

// ---------------------------------------------------------------- orchestration (parent side)

pub struct TierLOutcome {
    pub runs: u64,
    pub wall_s: f64,
    pub distinct_nontrivial: u64,
    pub violations: Vec<(Value, PathBuf)>,
    pub known_hits: Vec<String>,
    pub samples: Vec<Value>,
    pub stats: Value,
}

fn spawn_worker(paths: &Paths, seed: u64, from: u64, to: u64, stride: u64, out: &Path, deadline_s: u64) -> std::io::Result<std::process::Child> {
    let exe = std::env::current_exe()?;
    std::process::Command::new(paths.launcher())
        .arg("0")
        .arg(paths.shim())
        .arg("-")
        .arg(exe)
        .args(["l-worker", "--seed", &seed.to_string(), "--from", &from.to_string(), "--to", &to.to_string(), "--stride", &stride.to_string(), "--deadline-s", &deadline_s.to_string(), "--out"])
        .arg(out)
        .env("VERIF_DIR", &paths.verif)
        .env("VERIF_BUILD", &paths.build)
        .stdin(std::process::Stdio::null())
        // pdl-compiler prints dbg!() dumps before some todo!() panics: noise, kept out of the check's output
        .stderr(std::fs::File::create(out.with_extension("stderr")).map(std::process::Stdio::from).unwrap_or_else(|_| std::process::Stdio::null()))
        .spawn()
}

fn collect(path: &Path) -> Result<Vec<Value>, String> {
    let text = std::fs::read_to_string(path).map_err(|e| format!("{}: {e}", path.display()))?;
    text.lines().filter(|l| !l.trim().is_empty()).map(|l| serde_json::from_str(l).map_err(|e| format!("{}: {e}", path.display()))).collect()
}

pub fn run_tier(paths: &Paths, seed: u64, n: u64, nworkers: usize, selfcheck: u64, deadline: Instant, known: &Known) -> Result<TierLOutcome, String> {
    let t0 = Instant::now();
    let dir = paths.build.join("scratch").join("l");
    let _ = std::fs::remove_dir_all(&dir);
    std::fs::create_dir_all(&dir).map_err(|e| e.to_string())?;
    let remaining = deadline.saturating_duration_since(Instant::now()).as_secs().max(20);
    let mut children = Vec::new();
    for k in 0..nworkers as u64 {
        let out = dir.join(format!("w{k}.jsonl"));
        children.push((out.clone(), spawn_worker(paths, seed, k, n, nworkers as u64, &out, remaining).map_err(|e| format!("spawn l-worker: {e}"))?));
    }
    let mut records: BTreeMap<u64, Value> = BTreeMap::new();
    let mut probe_orders: BTreeSet<String> = BTreeSet::new();
    let mut getrandom = 0i64;
    let mut clock_reads = 0i64;
    for (out, mut ch) in children {
        let st = ch.wait().map_err(|e| e.to_string())?;
        if !st.success() {
            return Err(format!("tier L worker failed with {st}"));
        }
        for v in collect(&out)? {
            if v["summary"] == true {
                for p in v["probe_orders"].as_array().cloned().unwrap_or_default() {
                    probe_orders.insert(p.as_str().unwrap_or("").to_string());
                }
                getrandom += v["getrandom_calls"].as_i64().unwrap_or(0);
                clock_reads += v["clock_reads"].as_i64().unwrap_or(0);
            } else if let Some(r) = v["run"].as_u64() {
                records.insert(r, v);
            }
        }
    }
    if let Ok(path) = std::env::var("VERIF_DUMP_DIGESTS") {
        let mut text = String::new();
        for (r, v) in &records {
            text.push_str(&format!("L {r} {} {}\n", v["plan_digest"].as_str().unwrap_or(""), v["digest"].as_str().unwrap_or("")));
        }
        let _ = std::fs::write(format!("{path}.L"), text);
    }
    let mut out = TierLOutcome { runs: records.len() as u64, wall_s: 0.0, distinct_nontrivial: 0, violations: vec![], known_hits: vec![], samples: vec![], stats: json!({}) };
    let mut scheds: BTreeSet<String> = BTreeSet::new();
    let (mut steps, mut jobs, mut multi_thread, mut yield_switches, mut yields_seen, mut panics, mut shared, mut preload, mut canary) = (0u64, 0u64, 0u64, 0u64, 0u64, 0u64, 0u64, 0u64, 0u64);
    let mut nontrivial: BTreeSet<String> = BTreeSet::new();
    let mut blocked_total = 0u64;
    for (run, v) in &records {
        steps += v["steps"].as_u64().unwrap_or(0);
        jobs += v["jobs"].as_u64().unwrap_or(0);
        multi_thread += (v["threads"].as_u64().unwrap_or(1) > 1) as u64;
        yield_switches += v["yield_switches"].as_u64().unwrap_or(0);
        yields_seen += v["yields_seen"].as_u64().unwrap_or(0);
        panics += v["panics"].as_u64().unwrap_or(0);
        shared += v["shared_db"].as_bool().unwrap_or(false) as u64;
        preload += v["preload"].as_bool().unwrap_or(false) as u64;
        canary += v["canary_diag"].as_u64().unwrap_or(0);
        blocked_total += v["blocked_seen"].as_u64().unwrap_or(0);
        let sh = v["sched_hash"].as_str().unwrap_or("").to_string();
        scheds.insert(sh.clone());
        if v["nontrivial"].as_bool().unwrap_or(false) {
            nontrivial.insert(format!("{sh}/{}", v["digest"].as_str().unwrap_or("")));
        }
        if !v["sample"].is_null() && out.samples.len() < 3 {
            out.samples.push(v["sample"].clone());
        }
        if !v["violation"].is_null() {
            let viol = &v["violation"];
            let sig = json!({"tier": "L", "invariant": viol["invariant"], "entry": viol["entry"], "backend": viol["step"], "detail": viol["detail"]});
            if let Some(f) = known.matches(&sig) {
                out.known_hits.push(f["what"].as_str().unwrap_or("known finding").to_string());
                continue;
            }
            if out.violations.len() < 50 {
                let path = paths.out.join("replays").join(format!("C11-{seed}-L{run}.json"));
                let rec = json!({
                    "property": "C11", "tier": "L", "seed": seed, "run": run,
                    "plan": viol["plan"], "violation": {"invariant": viol["invariant"], "detail": viol["detail"]},
                    "minimisation_steps": viol["minimisation_steps"], "original_plan": viol["original_plan"],
                    "replay": format!("bin/check C11 --replay {}", path.display()),
                });
                write_json(&path, &rec).map_err(|e| e.to_string())?;
                out.violations.push((sig, path));
            }
        }
    }
    // determinism self-check (after the violations were collected, which take precedence):
    // the first runs again in ONE worker process
    let sc = selfcheck.min(n);
    if sc > 0 && out.violations.is_empty() {
        let outp = dir.join("selfcheck.jsonl");
        let mut ch = spawn_worker(paths, seed, 0, sc, 1, &outp, 600).map_err(|e| e.to_string())?;
        if !ch.wait().map_err(|e| e.to_string())?.success() {
            return Err("tier L self-check worker failed".into());
        }
        for v in collect(&outp)? {
            if let Some(r) = v["run"].as_u64() {
                if let Some(a) = records.get(&r) {
                    if a["plan_digest"] != v["plan_digest"] {
                        return Err(format!("tier L run {r} drew different plans in two executions: {} vs {}", a["plan_digest"], v["plan_digest"]));
                    }
                    // a run in which the scheduler found a thread silent for BLOCK_TIMEOUT (a real lock of the
                    // code under test — or merely a heavily loaded machine) is not schedule-exact: not compared
                    let inexact = a["blocked_seen"].as_u64().unwrap_or(0) > 0 || v["blocked_seen"].as_u64().unwrap_or(0) > 0;
                    if a["digest"] != v["digest"] && !inexact {
                        // same plan, same seed, different observation: the output of a compilation depends on
                        // something the simulator does not own (e.g. what ran earlier in the worker process)
                        let sig = json!({"tier": "L", "invariant": "R1", "entry": Value::Null, "backend": Value::Null,
                            "detail": format!("run {r}: the same plan (jobs, threads, hash stream, schedule seed) gave different step outputs in two worker processes with different earlier history")});
                        if known.matches(&sig).is_none() && out.violations.len() < 5 {
                            let path = paths.out.join("replays").join(format!("C11-{seed}-L{r}-R1.json"));
                            let rec = json!({"property": "C11", "tier": "L", "seed": seed, "run": r, "violation": {"invariant": "R1", "detail": sig["detail"]},
                                "note": "re-run `VERIF_SEED=<seed> bin/check C11` to reproduce: the divergence needs the preceding runs of the worker process as history",
                                "plan": Value::Null});
                            write_json(&path, &rec).map_err(|e| e.to_string())?;
                            out.violations.push((sig, path));
                        }
                    }
                }
            }
        }
    }
    out.distinct_nontrivial = nontrivial.len() as u64;
    out.wall_s = t0.elapsed().as_secs_f64();
    out.stats = json!({
        "runs": out.runs, "runs_requested": n, "wall_s": out.wall_s,
        "runs_per_hour": if out.wall_s > 0.0 { (out.runs as f64 / out.wall_s * 3600.0) as u64 } else { 0 },
        "jobs": jobs, "steps_executed_and_compared": steps,
        "runs_with_more_than_one_thread": multi_thread,
        "runs_with_shared_database": shared, "runs_with_preloaded_database": preload,
        "neighbour_panics_fired": panics,
        "yield_points_hit": yields_seen, "switches_at_yield_points": yield_switches,
        "distinct_baton_schedules": scheds.len(),
        "distinct_probe_map_iteration_orders": probe_orders.len(),
        "getrandom_draws": getrandom, "clock_reads": clock_reads,
        "rejected_source_diagnostic_mismatches_canary_not_judged": canary,
        "determinism_selfcheck_runs": selfcheck.min(n),
        "threads_found_blocked_on_a_lock_of_the_code_under_test": blocked_total,
        "yield_hook_enabled": cfg!(feature = "hooks"),
    });
    let _ = std::fs::remove_dir_all(&dir);
    Ok(out)
}

pub fn replay(paths: &Paths, v: &Value, file: &Path) -> i32 {
    if v["violation"]["invariant"] == "R1" {
        // history-dependence across runs: execute runs 0..=r in one worker process and run r alone
        // in another; the two observations of run r must agree
        let r = v["run"].as_u64().unwrap_or(0);
        let seed = v["seed"].as_u64().unwrap_or(1);
        let dir = paths.build.join("scratch").join("l-replay");
        let _ = std::fs::create_dir_all(&dir);
        let (a, b) = (dir.join("a.jsonl"), dir.join("b.jsonl"));
        let run = |from: u64, out: &Path| -> Option<Value> {
            let mut ch = spawn_worker(paths, seed, from, r + 1, 1, out, 1200).ok()?;
            if !ch.wait().ok()?.success() {
                return None;
            }
            collect(out).ok()?.into_iter().find(|x| x["run"].as_u64() == Some(r))
        };
        return match (run(0, &a), run(r, &b)) {
            (Some(x), Some(y)) => {
                if x["digest"] != y["digest"] {
                    println!("reproduced: invariant R1 — run {r} observed after runs 0..{r} differs from run {r} observed alone");
                    println!("VIOLATION property=C11 replay={}", file.display());
                    1
                } else {
                    println!("not reproduced on the current tree");
                    0
                }
            }
            _ => 2,
        };
    }
    let exe = match std::env::current_exe() {
        Ok(e) => e,
        Err(_) => return 2,
    };
    let out = paths.build.join("scratch").join("l-replay.jsonl");
    let _ = std::fs::create_dir_all(out.parent().unwrap());
    let st = std::process::Command::new(paths.launcher())
        .arg("0")
        .arg(paths.shim())
        .arg("-")
        .arg(exe)
        .args(["l-worker", "--out"])
        .arg(&out)
        .arg("--replay")
        .arg(file)
        .env("VERIF_DIR", &paths.verif)
        .env("VERIF_BUILD", &paths.build)
        .status();
    match st {
        Ok(s) => match s.code() {
            Some(1) => {
                println!("VIOLATION property=C11 replay={}", file.display());
                1
            }
            Some(0) => 0,
            _ => 2,
        },
        Err(_) => 2,
    }
}
