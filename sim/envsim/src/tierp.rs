//! Tier P of ENV-SIM: the shipped `pdlc` binary, one process per compilation, run under
//! the libc shim (seam S1). One PRNG stream per run decides the job, the perturbation
//! vector and the I/O fault plan. Oracles I1–I5 of DESIGN.md §3.4.

use crate::corpus::{Backend, Corpus, DeclGraph, Sibling, BACKENDS};
use crate::items;
use serde_json::{json, Value};
use simcore::{first_diff, stable_hash, Rng};
use std::collections::{BTreeMap, BTreeSet, HashMap};
use std::io::Read;
use std::path::{Path, PathBuf};
use std::process::{Command, Stdio};
use std::sync::{Arc, Mutex};

pub const TAG_P: u64 = 0x50;
/// I4 bounds: CPU seconds (load-independent; a normal compilation needs < 1 s) and a generous
/// wall-clock alarm for a process that blocks without burning CPU.
const CPU_LIMIT_S: u32 = 60;
const TIMEOUT_S: u32 = 600;

pub struct Ctx {
    pub corpus_dir: PathBuf,
    pub pdlc: PathBuf,
    pub shim: PathBuf,
    pub launcher: PathBuf,
    pub scratch: PathBuf,
    pub corpus: Corpus,
    pub memo: Mutex<HashMap<u64, Arc<ProcOut>>>,
    pub memo_bytes: Mutex<usize>,
}

#[derive(Clone, Debug, PartialEq)]
pub struct Job {
    pub entry: usize,
    pub sibling: Option<Sibling>,
    pub backend: Backend,
    pub extra_excl: Vec<String>,
    /// literal override (replay of minimised sources)
    pub text_override: Option<String>,
    /// further options (part of the job: the reference run carries them too), e.g.
    /// `--test-file le_test_vectors.json`, `--namespace a::b`
    pub extra_args: Vec<String>,
}

impl Job {
    pub fn text(&self, c: &Corpus) -> String {
        if let Some(t) = &self.text_override {
            return t.clone();
        }
        let t = &c.entries[self.entry].text;
        match &self.sibling {
            Some(s) => s.apply(t),
            None => t.clone(),
        }
    }
    pub fn name(&self, c: &Corpus) -> String {
        format!("src/{}.pdl", c.entries[self.entry].id)
    }
    /// Options (without input file, java output dir/package are appended by run_proc).
    pub fn args(&self, c: &Corpus) -> Vec<String> {
        let o = c.entries[self.entry].opts_for(self.backend);
        let mut v = vec!["--output-format".to_string(), self.backend.name().to_string()];
        for e in o.exclude.iter().chain(self.extra_excl.iter()) {
            v.push("--exclude-declaration".into());
            v.push(e.clone());
        }
        for cf in &o.custom_field {
            v.push("--custom-field".into());
            v.push(cf.clone());
        }
        v.extend(self.extra_args.iter().cloned());
        v
    }
    pub fn to_json(&self, c: &Corpus) -> Value {
        json!({
            "entry": c.entries[self.entry].id,
            "sibling": self.sibling.as_ref().map(|s| s.to_json()),
            "backend": self.backend.name(),
            "extra_exclude": self.extra_excl,
            "extra_args": self.extra_args,
            "file_name": self.name(c),
            "args": self.args(c),
            "source_text": self.text(c),
        })
    }
}

#[derive(Clone, Debug, PartialEq)]
pub enum JavaHist {
    Empty,
    /// the complete output of an earlier run of the same job
    Same,
    /// every expected file pre-exists with its reference content plus a tail
    LongerStale(u32),
    /// complete output of a sibling description
    Sibling(Sibling),
    /// a first process is crashed by the shim at its k-th sink write, then a clean re-run
    Torso(u64),
    /// for `--test-file` jobs: the class files of the same description were generated into the
    /// directory first (the usual order of the two commands)
    ClassesFirst,
}

#[derive(Clone, Debug, PartialEq)]
pub struct Perturb {
    pub hash_seed: u64,
    pub clock: Option<(i64, i64, i64)>,
    pub pid: i32,
    pub env: Vec<(String, String)>,
    pub cwd_b: bool,
    pub heap_shift: u64,
    pub mmap_shift: u64,
    pub sink_pipe: bool,
    pub input_first: bool,
    /// modification time given to the source file (seconds since the epoch); None = now
    pub src_mtime: Option<i64>,
    /// simulated host name
    pub host: Option<String>,
    /// the source path is a symbolic link to a file with another base name in another directory
    pub src_symlink: bool,
    /// standard descriptors that answer isatty() with yes (bit 0 stdin, bit 1 stdout): an
    /// interactive console instead of a file or pipe; the bytes still go where the sink is
    pub tty_mask: u32,
    /// number of CPUs the process may run on (affinity mask); None = all
    pub ncpu: Option<u32>,
    /// persistent per-user state: HOME, XDG_CACHE_HOME and TMPDIR point to directories that
    /// survive from run to run of this worker
    pub persist_home: bool,
    /// process history: the same file name was compiled before, with this sibling's text, in the
    /// same environment (same HOME/TMPDIR, same mtime) — output discarded
    pub prev_run: Option<Sibling>,
    pub rd_rate: u32,
    pub wr_rate: u32,
    pub rd_fail_at: Option<(u64, i32)>,
    pub wr_fail_at: Option<(u64, i32)>,
    pub wr_crash_at: Option<u64>,
    pub java_hist: JavaHist,
}

impl Perturb {
    pub fn canonical() -> Perturb {
        Perturb {
            hash_seed: 0,
            clock: Some((1_700_000_000, 1000, 0)),
            pid: 1000,
            env: vec![],
            cwd_b: false,
            heap_shift: 0,
            mmap_shift: 0,
            sink_pipe: false,
            input_first: true,
            src_mtime: Some(1_600_000_000),
            host: None,
            src_symlink: false,
            tty_mask: 0,
            ncpu: None,
            persist_home: false,
            prev_run: None,
            rd_rate: 0,
            wr_rate: 0,
            rd_fail_at: None,
            wr_fail_at: None,
            wr_crash_at: None,
            java_hist: JavaHist::Empty,
        }
    }
    pub fn has_hard_fault(&self) -> bool {
        self.rd_fail_at.is_some() || self.wr_fail_at.is_some() || self.wr_crash_at.is_some()
    }
    pub fn to_json(&self) -> Value {
        json!({
            "hash_seed": self.hash_seed.to_string(),
            "clock": self.clock.map(|(b, s, j)| json!({"base_s": b, "step_ns": s, "jump_every": j})),
            "pid": self.pid,
            "env": self.env.iter().map(|(k, v)| json!([k, v])).collect::<Vec<_>>(),
            "cwd_copy": if self.cwd_b { "b" } else { "a" },
            "heap_shift": self.heap_shift,
            "mmap_shift": self.mmap_shift,
            "sink": if self.sink_pipe { "pipe" } else { "file" },
            "input_first": self.input_first,
            "src_mtime": self.src_mtime,
            "host": self.host,
            "src_symlink": self.src_symlink,
            "tty_mask": self.tty_mask,
            "ncpu": self.ncpu,
            "persist_home": self.persist_home,
            "prev_run": self.prev_run.as_ref().map(|s| s.to_json()),
            "rd_rate": self.rd_rate,
            "wr_rate": self.wr_rate,
            "rd_fail_at": self.rd_fail_at.map(|(k, e)| json!([k, e])),
            "wr_fail_at": self.wr_fail_at.map(|(k, e)| json!([k, e])),
            "wr_crash_at": self.wr_crash_at,
            "java_hist": match &self.java_hist {
                JavaHist::Empty => json!("empty"),
                JavaHist::Same => json!("same"),
                JavaHist::LongerStale(n) => json!({"longer_stale": n}),
                JavaHist::Sibling(s) => json!({"sibling": s.to_json()}),
                JavaHist::Torso(k) => json!({"torso": k}),
                JavaHist::ClassesFirst => json!("classes_first"),
            },
        })
    }
    pub fn from_json(v: &Value) -> Option<Perturb> {
        let mut p = Perturb::canonical();
        p.hash_seed = v["hash_seed"].as_str()?.parse().ok()?;
        p.clock = if v["clock"].is_null() {
            None
        } else {
            Some((v["clock"]["base_s"].as_i64()?, v["clock"]["step_ns"].as_i64()?, v["clock"]["jump_every"].as_i64()?))
        };
        p.pid = v["pid"].as_i64()? as i32;
        p.env = v["env"].as_array()?.iter().map(|kv| (kv[0].as_str().unwrap_or("").to_string(), kv[1].as_str().unwrap_or("").to_string())).collect();
        p.cwd_b = v["cwd_copy"].as_str()? == "b";
        p.heap_shift = v["heap_shift"].as_u64()?;
        p.mmap_shift = v["mmap_shift"].as_u64()?;
        p.sink_pipe = v["sink"].as_str()? == "pipe";
        p.input_first = v["input_first"].as_bool()?;
        p.src_mtime = v["src_mtime"].as_i64();
        p.host = v["host"].as_str().map(String::from);
        p.src_symlink = v["src_symlink"].as_bool().unwrap_or(false);
        p.tty_mask = v["tty_mask"].as_u64().unwrap_or(0) as u32;
        p.ncpu = v["ncpu"].as_u64().map(|x| x as u32);
        p.persist_home = v["persist_home"].as_bool().unwrap_or(false);
        p.prev_run = if v["prev_run"].is_null() { None } else { Sibling::from_json(&v["prev_run"]) };
        p.rd_rate = v["rd_rate"].as_u64()? as u32;
        p.wr_rate = v["wr_rate"].as_u64()? as u32;
        let pair = |x: &Value| -> Option<(u64, i32)> { Some((x[0].as_u64()?, x[1].as_i64()? as i32)) };
        p.rd_fail_at = if v["rd_fail_at"].is_null() { None } else { pair(&v["rd_fail_at"]) };
        p.wr_fail_at = if v["wr_fail_at"].is_null() { None } else { pair(&v["wr_fail_at"]) };
        p.wr_crash_at = v["wr_crash_at"].as_u64();
        p.java_hist = match &v["java_hist"] {
            Value::String(s) if s == "same" => JavaHist::Same,
            Value::String(s) if s == "classes_first" => JavaHist::ClassesFirst,
            Value::Object(o) if o.contains_key("longer_stale") => JavaHist::LongerStale(o["longer_stale"].as_u64()? as u32),
            Value::Object(o) if o.contains_key("torso") => JavaHist::Torso(o["torso"].as_u64()?),
            Value::Object(o) if o.contains_key("sibling") => JavaHist::Sibling(sibling_from_json(&o["sibling"])?),
            _ => JavaHist::Empty,
        };
        Some(p)
    }
}

pub fn sibling_from_json(v: &Value) -> Option<Sibling> {
    Sibling::from_json(v)
}

#[derive(Clone, Debug, Default)]
pub struct ShimLog {
    pub counts: BTreeMap<String, u64>,
    pub sink_open_order: Vec<String>,
    pub rd_calls: u64,
    pub wr_calls: u64,
    pub getrandom_calls: u64,
    pub raw_hash: u64,
}

#[derive(Clone, Debug, Default)]
pub struct ProcOut {
    /// exit code, or 1000 + signal number
    pub status: i32,
    pub stdout: Vec<u8>,
    pub stderr: Vec<u8>,
    pub files: BTreeMap<String, Vec<u8>>,
    pub log: ShimLog,
}

impl ProcOut {
    fn size(&self) -> usize {
        self.stdout.len() + self.stderr.len() + self.files.values().map(|v| v.len()).sum::<usize>() + 256
    }
}

fn parse_log(path: &Path) -> ShimLog {
    let mut l = ShimLog::default();
    let text = std::fs::read_to_string(path).unwrap_or_default();
    l.raw_hash = stable_hash(&text);
    for line in text.lines() {
        let mut it = line.split(' ');
        let kind = it.next().unwrap_or("");
        *l.counts.entry(kind.to_string()).or_insert(0) += 1;
        match kind {
            "open_sink" => {
                let p = it.next().unwrap_or("");
                l.sink_open_order.push(p.rsplit('/').next().unwrap_or(p).to_string());
            }
            "end" => {
                l.rd_calls = it.next().and_then(|x| x.parse().ok()).unwrap_or(0);
                l.wr_calls = it.next().and_then(|x| x.parse().ok()).unwrap_or(0);
                l.getrandom_calls = it.next().and_then(|x| x.parse().ok()).unwrap_or(0);
            }
            _ => {}
        }
    }
    l
}

fn read_tree(root: &Path, rel: &str, out: &mut BTreeMap<String, Vec<u8>>) {
    let dir = if rel.is_empty() { root.to_path_buf() } else { root.join(rel) };
    let rd = match std::fs::read_dir(&dir) {
        Ok(r) => r,
        Err(_) => return,
    };
    let mut names: Vec<_> = rd.filter_map(|e| e.ok()).map(|e| e.file_name().to_string_lossy().into_owned()).collect();
    names.sort();
    for n in names {
        let r = if rel.is_empty() { n.clone() } else { format!("{rel}/{n}") };
        let p = root.join(&r);
        if p.is_dir() {
            read_tree(root, &r, out);
        } else if let Ok(b) = std::fs::read(&p) {
            out.insert(r, b);
        }
    }
}

pub fn write_tree(root: &Path, files: &BTreeMap<String, Vec<u8>>, tail: Option<&[u8]>) {
    for (rel, content) in files {
        let p = root.join(rel);
        if let Some(d) = p.parent() {
            let _ = std::fs::create_dir_all(d);
        }
        let mut c = content.clone();
        if let Some(t) = tail {
            c.extend_from_slice(t);
        }
        let _ = std::fs::write(&p, c);
    }
}

pub const JAVA_PACKAGE: &str = "verif.gen";

/// What a worker owns on disk.
pub struct WorkerDir {
    pub root: PathBuf,
}

impl WorkerDir {
    pub fn new(scratch: &Path, k: usize) -> WorkerDir {
        let root = scratch.join(format!("w{k}"));
        let _ = std::fs::remove_dir_all(&root);
        std::fs::create_dir_all(root.join("a/src")).unwrap();
        std::fs::create_dir_all(root.join("deep/er/b/src")).unwrap();
        // the second working directory also carries tool configuration files a compiler or a tool
        // it shells out to might discover (the first one has none)
        let b = root.join("deep/er/b");
        let _ = std::fs::write(b.join("rustfmt.toml"), "max_width = 60\ntab_spaces = 2\nhard_tabs = true\n");
        let _ = std::fs::write(b.join(".rustfmt.toml"), "max_width = 60\n");
        let _ = std::fs::write(b.join(".editorconfig"), "root = true\n[*]\nindent_style = tab\nindent_size = 3\nend_of_line = crlf\n");
        let _ = std::fs::write(b.join(".clang-format"), "BasedOnStyle: Google\nIndentWidth: 3\nColumnLimit: 50\n");
        let _ = std::fs::write(b.join("pdl.toml"), "[output]\nbanner = false\n");
        let _ = std::fs::write(b.join(".pdlrc"), "banner=false\n");
        WorkerDir { root }
    }
    /// Second-input files (test vectors) under the same relative name in both cwd copies.
    pub fn install_aux(&self, corpus_dir: &Path) {
        for f in ["le_test_vectors.json", "be_test_vectors.json"] {
            for b in [false, true] {
                let _ = std::fs::copy(corpus_dir.join(f), self.cwd(b).join(f));
            }
        }
    }
    pub fn cwd(&self, b: bool) -> PathBuf {
        if b {
            self.root.join("deep/er/b")
        } else {
            self.root.join("a")
        }
    }
}

/// Run one pdlc process. `prepare_jout`: if false the java output directory is left as it is
/// (used for the second half of crash-restart pairs and for pre-populated histories).
pub fn run_proc(ctx: &Ctx, wd: &WorkerDir, job: &Job, text: &str, p: &Perturb, clear_jout: bool) -> ProcOut {
    let c = &ctx.corpus;
    let cwd = wd.cwd(p.cwd_b);
    let name = job.name(c);
    let _ = std::fs::remove_file(cwd.join(&name));
    let real_path = if p.src_symlink {
        // same path on the command line, but it is a link into a content-addressed store
        let store = cwd.join("store");
        let _ = std::fs::create_dir_all(&store);
        let target = store.join(format!("{:016x}.pdl", stable_hash(&text)));
        std::fs::write(&target, text).expect("write source");
        std::os::unix::fs::symlink(&target, cwd.join(&name)).expect("symlink source");
        target
    } else {
        std::fs::write(cwd.join(&name), text).expect("write source");
        cwd.join(&name)
    };
    if let Some(t) = p.src_mtime {
        if let Ok(f) = std::fs::OpenOptions::new().write(true).open(&real_path) {
            let _ = f.set_modified(std::time::UNIX_EPOCH + std::time::Duration::from_secs(t.max(0) as u64));
        }
    }
    let plan_path = wd.root.join("plan");
    let log_path = wd.root.join("log");
    let _ = std::fs::remove_file(&log_path);
    let mut plan = String::new();
    plan.push_str(&format!("seed={}\nhash=1\n", p.hash_seed));
    if let Some((b, s, j)) = p.clock {
        plan.push_str(&format!("clock=1\nclock_base={b}\nclock_step_ns={s}\nclock_jump_every={j}\n"));
    }
    plan.push_str(&format!("pid={}\nrd_rate={}\nwr_rate={}\ntty={}\n", p.pid, p.rd_rate, p.wr_rate, p.tty_mask));
    if let Some(h) = &p.host {
        plan.push_str(&format!("host={h}\n"));
    }
    if let Some((k, e)) = p.rd_fail_at {
        plan.push_str(&format!("rd_fail_at={k}\nrd_errno={e}\n"));
    }
    if let Some((k, e)) = p.wr_fail_at {
        plan.push_str(&format!("wr_fail_at={k}\nwr_errno={e}\n"));
    }
    if let Some(k) = p.wr_crash_at {
        plan.push_str(&format!("wr_crash_at={k}\n"));
    }
    plan.push_str(&format!("heap_shift={}\nmmap_shift={}\nlog={}\n", p.heap_shift, p.mmap_shift, log_path.display()));
    std::fs::write(&plan_path, plan).expect("write plan");

    let jout = cwd.join("jout");
    if job.backend == Backend::Java && clear_jout {
        let _ = std::fs::remove_dir_all(&jout);
    }

    let mut args: Vec<String> = Vec::new();
    let opts = job.args(c);
    if p.input_first {
        args.push(name.clone());
        args.extend(opts);
    } else {
        args.extend(opts);
        args.push(name.clone());
    }
    if job.backend == Backend::Java {
        args.extend(["--output-dir".into(), "jout".into(), "--java-package".into(), JAVA_PACKAGE.into()]);
    }

    let mut cmd = Command::new(&ctx.launcher);
    cmd.arg(format!("{TIMEOUT_S}:{CPU_LIMIT_S}:{}", p.ncpu.unwrap_or(0))).arg(&ctx.shim).arg(&plan_path).arg(&ctx.pdlc).args(&args);
    cmd.env_clear();
    for (k, v) in &p.env {
        cmd.env(k, v);
    }
    if p.persist_home {
        let home = wd.root.join("home");
        let _ = std::fs::create_dir_all(home.join(".cache"));
        let _ = std::fs::create_dir_all(wd.root.join("tmp"));
        cmd.env("HOME", &home).env("XDG_CACHE_HOME", home.join(".cache")).env("TMPDIR", wd.root.join("tmp"));
    }
    cmd.current_dir(&cwd);
    cmd.stdin(Stdio::null());
    cmd.stderr(Stdio::piped());
    let out_file = wd.root.join("stdout.bin");
    if p.sink_pipe {
        cmd.stdout(Stdio::piped());
    } else {
        cmd.stdout(std::fs::File::create(&out_file).expect("stdout file"));
    }
    let child = cmd.spawn().expect("spawn pdlc under launcher");
    let output = child.wait_with_output().expect("wait");
    let status = match output.status.code() {
        Some(c) => c,
        None => {
            use std::os::unix::process::ExitStatusExt;
            1000 + output.status.signal().unwrap_or(0)
        }
    };
    let stdout = if p.sink_pipe {
        output.stdout
    } else {
        let mut v = Vec::new();
        std::fs::File::open(&out_file).and_then(|mut f| f.read_to_end(&mut v)).expect("read stdout file");
        v
    };
    let mut files = BTreeMap::new();
    if job.backend == Backend::Java {
        read_tree(&jout, "", &mut files);
    }
    ProcOut { status, stdout, stderr: output.stderr, files, log: parse_log(&log_path) }
}

fn memo_key(job: &Job, text: &str, c: &Corpus) -> u64 {
    stable_hash(&(text, job.name(c), job.args(c)))
}

/// Reference: the compilation run alone, canonical environment, no faults. Memoised.
pub fn reference(ctx: &Ctx, wd: &WorkerDir, job: &Job, text: &str) -> Arc<ProcOut> {
    let key = memo_key(job, text, &ctx.corpus);
    if let Some(r) = ctx.memo.lock().unwrap().get(&key) {
        return r.clone();
    }
    let out = Arc::new(run_proc(ctx, wd, job, text, &Perturb::canonical(), true));
    let mut total = ctx.memo_bytes.lock().unwrap();
    let mut m = ctx.memo.lock().unwrap();
    if *total > 768 << 20 {
        m.clear();
        *total = 0;
    }
    *total += out.size();
    m.insert(key, out.clone());
    out
}

/// Text of a process's stderr for violation messages: colours removed and the OS thread id that
/// a panicking Rust program prints (`thread 'main' (12345) panicked`) blanked, so that messages —
/// and with them run digests and known-finding signatures — are reproducible.
pub fn stderr_excerpt(b: &[u8], max: usize) -> String {
    let t = String::from_utf8_lossy(&strip_ansi(b)).into_owned();
    let mut out = String::with_capacity(t.len());
    let mut rest = t.as_str();
    while let Some(p) = rest.find("' (") {
        let after = &rest[p + 3..];
        let digits = after.chars().take_while(|c| c.is_ascii_digit()).count();
        if digits > 0 && after[digits..].starts_with(") panicked") {
            out.push_str(&rest[..p + 1]);
            rest = &after[digits + 1..];
        } else {
            out.push_str(&rest[..p + 3]);
            rest = after;
        }
    }
    out.push_str(rest);
    out.chars().take(max).collect()
}

pub fn strip_ansi(b: &[u8]) -> Vec<u8> {
    let mut out = Vec::with_capacity(b.len());
    let mut i = 0;
    while i < b.len() {
        if b[i] == 0x1b && i + 1 < b.len() && b[i + 1] == b'[' {
            i += 2;
            while i < b.len() && !(b[i] as char).is_ascii_alphabetic() {
                i += 1;
            }
            i += 1;
        } else {
            out.push(b[i]);
            i += 1;
        }
    }
    out
}

const ENV_KEYS: [&str; 40] = [
    "LANG", "LC_ALL", "LC_COLLATE", "LC_NUMERIC", "TZ", "HOME", "USER", "LOGNAME", "HOSTNAME", "SHELL", "PWD", "OLDPWD", "PATH", "TERM", "NO_COLOR",
    "CLICOLOR_FORCE", "FORCE_COLOR", "COLUMNS", "CI", "DEBUG", "VERBOSE", "RUST_LOG", "RUST_BACKTRACE_VERIF_IGNORED", "RUSTFLAGS", "CARGO_MANIFEST_DIR",
    "CARGO_PKG_VERSION", "OUT_DIR", "PROFILE", "TMPDIR", "XDG_CONFIG_HOME", "SOURCE_DATE_EPOCH", "PDL_DEBUG", "PDLC_OPTIONS", "PDL_PATH",
    "CARGO_CRATE_NAME", "CARGO_PKG_NAME", "CARGO_BIN_NAME", "RUSTFMT", "RUSTC", "CARGO",
];
const ENV_VALS: [&str; 20] = [
    "", "1", "0", "C", "en_US.UTF-8", "tr_TR.UTF-8", "xterm-256color", "dumb", "/nonexistent", "/tmp", "Europe/Paris", "always", "315532800", "true",
    "pdl_runtime", "pdl_compiler", "pdl_derive", "pdl-tests", "pdlc", "/usr/bin/false",
];

/// Swarm-style draw of the perturbation vector.
pub fn draw_perturb(rng: &mut Rng, backend: Backend, ref_out: &ProcOut, has_test_file: bool) -> Perturb {
    let mut p = Perturb::canonical();
    let enabled = rng.next(); // bit mask of enabled kinds for this run
    let on = |bit: u32| (enabled >> bit) & 1 == 1;
    // the hash stream is the property's named nondeterminism source: on in 7 of 8 runs
    if rng.below(8) != 0 {
        p.hash_seed = rng.next() | 1;
    }
    if on(1) {
        let base = rng.range(0, 4_102_444_800) as i64; // 1970 .. 2100
        let step = *rng.pick(&[0i64, 1, 1000, 1_000_000_007, 86_400_000_000_000]);
        let jump = *rng.pick(&[0i64, 2, 3, 7]);
        p.clock = Some((base, step, jump));
    }
    if on(2) {
        p.pid = rng.range(2, 4_000_000) as i32;
    }
    if on(3) {
        let n = rng.range(1, 10);
        for _ in 0..n {
            let k = rng.pick(&ENV_KEYS).to_string();
            let v = rng.pick(&ENV_VALS).to_string();
            // PATH: half of the time the real search path of this machine (tools the compiler might shell out to)
            let v = if k == "PATH" && rng.below(2) == 0 { std::env::var("PATH").unwrap_or(v) } else { v };
            if !p.env.iter().any(|(kk, _)| *kk == k) {
                p.env.push((k, v));
            }
        }
    }
    p.cwd_b = on(4);
    if on(5) {
        p.heap_shift = rng.range(1, 1 << 20) * 16;
    }
    if on(6) {
        p.mmap_shift = rng.range(1, 512) * 4096;
    }
    p.sink_pipe = on(7);
    p.input_first = !on(8);
    if on(11) {
        p.src_mtime = Some(rng.range(0, 4_102_444_800) as i64);
    }
    if on(12) {
        p.host = Some(rng.pick(&["build-01", "ci-runner-7f3a", "localhost", "x"]).to_string());
    }
    if on(13) {
        p.ncpu = Some(*rng.pick(&[1u32, 2, 3, 5, 7, 11]));
    }
    p.src_symlink = on(15);
    if on(16) {
        // stdout (and in half of these runs stdin) claims to be a terminal
        p.tty_mask = if on(17) { 0b11 } else { 0b10 };
    }
    if on(14) {
        p.persist_home = true;
        if rng.below(2) == 0 {
            p.prev_run = Some(if rng.below(2) == 0 { Sibling::SwapTwoWidths(rng.next()) } else { Sibling::draw(rng) });
        }
    }
    // retryable I/O faults
    if on(9) {
        p.wr_rate = *rng.pick(&[16u32, 64, 128, 256]);
        // trickle mode on large outputs is slow: cap rate by size
        let total = ref_out.stdout.len() + ref_out.files.values().map(|f| f.len()).sum::<usize>();
        if total > 100_000 && p.wr_rate == 256 {
            p.wr_rate = 128;
        }
    }
    if on(10) {
        p.rd_rate = *rng.pick(&[32u32, 128, 256]);
    }
    // at most one hard fault per run, in 1 of 4 runs, placed inside the phase that does the I/O
    if rng.below(4) == 0 {
        let est_wr = {
            // expected number of sink write calls under the chosen short-write rate
            let base = ref_out.log.wr_calls.max(1);
            if p.wr_rate == 0 {
                base
            } else {
                let bytes = (ref_out.stdout.len() + ref_out.files.values().map(|f| f.len()).sum::<usize>()) as u64;
                base + bytes * p.wr_rate as u64 / 256 / 4
            }
        };
        match rng.below(4) {
            0 => {
                let est_rd = ref_out.log.rd_calls.max(1) * if p.rd_rate > 0 { 4 } else { 1 };
                p.rd_fail_at = Some((rng.below(est_rd.min(64)), *rng.pick(&[5, 4 + 9, 13]))); // EIO, EACCES(13)
                if let Some((_, e)) = &mut p.rd_fail_at {
                    if *e == 4 + 9 {
                        *e = 5;
                    }
                }
            }
            1 | 2 => {
                p.wr_fail_at = Some((rng.below(est_wr), *rng.pick(&[28, 32, 5, 122]))); // ENOSPC EPIPE EIO EDQUOT
            }
            _ => {
                p.wr_crash_at = Some(rng.below(est_wr));
            }
        }
    }
    if backend == Backend::Java && has_test_file && rng.below(2) == 0 {
        p.java_hist = JavaHist::ClassesFirst;
    } else if backend == Backend::Java {
        p.java_hist = match rng.below(6) {
            0 | 1 => JavaHist::Empty,
            2 => JavaHist::Same,
            3 => JavaHist::LongerStale(rng.range(1, 400) as u32),
            4 => JavaHist::Sibling(Sibling::draw(rng)),
            _ => JavaHist::Torso(rng.below(ref_out.log.wr_calls.max(1))),
        };
    }
    p
}

#[derive(Clone, Debug)]
pub struct Violation {
    pub invariant: &'static str,
    pub detail: String,
}

#[derive(Clone, Debug, Default)]
pub struct RunStats {
    pub procs: u64,
    pub fired: BTreeMap<String, u64>,
    pub enabled: BTreeMap<String, u64>,
    pub open_order_hash: Option<u64>,
    pub excl_items_compared: u64,
    pub excl_items_skipped: u64,
    pub ref_status: i32,
    pub nontrivial: bool,
    pub rejected_diag_mismatch: bool,
    pub n_decls: usize,
}

pub struct RunResult {
    pub job: Job,
    pub perturb: Perturb,
    pub violation: Option<Violation>,
    pub stats: RunStats,
    /// what the simulator chose (a function of seed and run index only)
    pub plan_digest: u64,
    /// what the system under test did
    pub obs_digest: u64,
}

fn bump(m: &mut BTreeMap<String, u64>, k: &str, n: u64) {
    if n > 0 {
        *m.entry(k.to_string()).or_insert(0) += n;
    }
}

fn note_enabled(p: &Perturb, st: &mut RunStats) {
    let c = Perturb::canonical();
    bump(&mut st.enabled, "hash_stream", (p.hash_seed != 0) as u64);
    bump(&mut st.enabled, "clock", (p.clock != c.clock) as u64);
    bump(&mut st.enabled, "pid", (p.pid != c.pid) as u64);
    bump(&mut st.enabled, "env", (!p.env.is_empty()) as u64);
    bump(&mut st.enabled, "cwd_copy_b", p.cwd_b as u64);
    bump(&mut st.enabled, "heap_shift", (p.heap_shift != 0) as u64);
    bump(&mut st.enabled, "mmap_shift", (p.mmap_shift != 0) as u64);
    bump(&mut st.enabled, "sink_pipe", p.sink_pipe as u64);
    bump(&mut st.enabled, "input_last", (!p.input_first) as u64);
    bump(&mut st.enabled, "source_mtime", (p.src_mtime != c.src_mtime) as u64);
    bump(&mut st.enabled, "hostname", p.host.is_some() as u64);
    bump(&mut st.enabled, "cpu_affinity", p.ncpu.is_some() as u64);
    bump(&mut st.enabled, "source_path_is_a_symlink", p.src_symlink as u64);
    bump(&mut st.enabled, "stdout_is_a_terminal", (p.tty_mask != 0) as u64);
    bump(&mut st.enabled, "persistent_home_and_tmp", p.persist_home as u64);
    bump(&mut st.enabled, "previous_run_of_a_sibling_under_the_same_name", p.prev_run.is_some() as u64);
    bump(&mut st.enabled, "short_or_eintr_write", (p.wr_rate > 0) as u64);
    bump(&mut st.enabled, "short_or_eintr_read", (p.rd_rate > 0) as u64);
    bump(&mut st.enabled, "hard_read_error", p.rd_fail_at.is_some() as u64);
    bump(&mut st.enabled, "hard_write_error", p.wr_fail_at.is_some() as u64);
    bump(&mut st.enabled, "crash_at_write", p.wr_crash_at.is_some() as u64);
    match &p.java_hist {
        JavaHist::Empty => {}
        JavaHist::Same => bump(&mut st.enabled, "java_dir_same_output", 1),
        JavaHist::LongerStale(_) => bump(&mut st.enabled, "java_dir_longer_stale_files", 1),
        JavaHist::Sibling(_) => bump(&mut st.enabled, "java_dir_sibling_output", 1),
        JavaHist::Torso(_) => bump(&mut st.enabled, "java_dir_crash_torso", 1),
        JavaHist::ClassesFirst => bump(&mut st.enabled, "java_dir_classes_generated_first", 1),
    }
}

fn note_fired(log: &ShimLog, st: &mut RunStats) {
    for (k, n) in &log.counts {
        match k.as_str() {
            "getrandom" | "clock" | "getpid" | "hostname" | "isatty" | "rd_short" | "rd_eintr" | "rd_hard" | "wr_short" | "wr_eintr" | "wr_hard" | "wr_crash" => bump(&mut st.fired, k, *n),
            _ => {}
        }
    }
}

/// Draw the job of a run.
pub fn draw_job(rng: &mut Rng, c: &Corpus) -> Job {
    // weight the big/wide entries: they are where order leaks can show
    let heavy: Vec<usize> = c.entries.iter().enumerate().filter(|(_, e)| e.id.starts_with("canonical") || e.id.starts_with("hand_") || e.id.starts_with("example_")).map(|(i, _)| i).collect();
    let entry = if !heavy.is_empty() && rng.below(3) == 0 { *rng.pick(&heavy) } else { rng.below(c.entries.len() as u64) as usize };
    let backend = *rng.pick(&BACKENDS);
    let sibling = if rng.below(5) == 0 { Some(Sibling::draw(rng)) } else { None };
    let mut extra_args: Vec<String> = Vec::new();
    let id = c.entries[entry].id.as_str();
    if (id == "canonical_le" || id == "canonical_be") && matches!(backend, Backend::Rust | Backend::Java) && sibling.is_none() && rng.below(4) == 0 {
        // the test-generation front end (reads a second input file)
        extra_args.push("--test-file".into());
        extra_args.push(if id == "canonical_le" { "le_test_vectors.json".into() } else { "be_test_vectors.json".into() });
    }
    if backend == Backend::Python && rng.below(3) == 0 {
        // the documented qualified form `module.CustomField`, naming a custom field of the description
        let text = &c.entries[entry].text;
        let names: Vec<&str> = text.lines().filter_map(|l| l.trim_start().strip_prefix("custom_field ")).filter_map(|r| r.split(|ch: char| !(ch.is_ascii_alphanumeric() || ch == '_')).next()).filter(|n| !n.is_empty()).collect();
        if !names.is_empty() && c.entries[entry].opts_for(backend).custom_field.is_empty() {
            extra_args.extend(["--custom-field".to_string(), format!("verif.custom.{}", rng.pick(&names))]);
        }
    }
    if backend == Backend::Cxx && rng.below(3) == 0 {
        extra_args.extend(["--namespace".to_string(), "verif::ns".to_string()]);
        if rng.below(2) == 0 {
            extra_args.extend(["--include-header".to_string(), "verif_extra.h".to_string(), "--using-namespace".to_string(), "verif::other".to_string()]);
        }
    }
    Job { entry, sibling, backend, extra_excl: vec![], text_override: None, extra_args }
}

fn compare_java(reference: &ProcOut, got: &ProcOut, exact_set: bool) -> Option<String> {
    for (name, content) in &reference.files {
        match got.files.get(name) {
            None => return Some(format!("class file {name} missing")),
            Some(c) if c != content => {
                return Some(format!("class file {name} differs from the reference at byte {:?} (len {} vs {})", first_diff(content, c), content.len(), c.len()))
            }
            _ => {}
        }
    }
    if exact_set {
        for name in got.files.keys() {
            if !reference.files.contains_key(name) {
                return Some(format!("unexpected extra file {name}"));
            }
        }
    }
    None
}

/// Execute one tier P run (possibly several processes) and evaluate the oracles.
pub fn execute(ctx: &Ctx, wd: &WorkerDir, job: &Job, p: &Perturb, st: &mut RunStats) -> Option<Violation> {
    let c = &ctx.corpus;
    let text = job.text(c);
    let r = reference(ctx, wd, job, &text);
    st.procs += 1;
    st.ref_status = r.status;
    note_enabled(p, st);

    if r.status >= 1000 {
        return Some(Violation { invariant: "I4", detail: format!("reference compilation killed by signal {} (24 = more than {CPU_LIMIT_S}s of CPU, 14 = blocked for {TIMEOUT_S}s)", r.status - 1000) });
    }

    // --- java directory history ---
    let mut clear = true;
    if job.backend == Backend::Java && r.status == 0 {
        let jout = wd.cwd(p.cwd_b).join("jout");
        match &p.java_hist {
            JavaHist::Empty => {}
            JavaHist::Same => {
                let _ = std::fs::remove_dir_all(&jout);
                write_tree(&jout, &r.files, None);
                clear = false;
            }
            JavaHist::LongerStale(n) => {
                let _ = std::fs::remove_dir_all(&jout);
                let tail: Vec<u8> = std::iter::repeat(b"// stale\n".iter().copied()).flatten().take(*n as usize).collect();
                write_tree(&jout, &r.files, Some(&tail));
                clear = false;
            }
            JavaHist::Sibling(s) => {
                let sib_job = Job { sibling: None, text_override: Some(s.apply(&text)), ..job.clone() };
                let sib_text = sib_job.text(c);
                let sr = reference(ctx, wd, &sib_job, &sib_text);
                st.procs += 1;
                let _ = std::fs::remove_dir_all(&jout);
                write_tree(&jout, &sr.files, None);
                clear = false;
            }
            JavaHist::ClassesFirst => {
                // the class-generation command of the same source and options, into the same directory
                let cjob = Job { extra_args: job.extra_args.iter().filter(|a| *a != "--test-file" && !a.ends_with("_test_vectors.json")).cloned().collect(), ..job.clone() };
                let cr = reference(ctx, wd, &cjob, &text);
                st.procs += 1;
                let _ = std::fs::remove_dir_all(&jout);
                write_tree(&jout, &cr.files, None);
                clear = false;
            }
            JavaHist::Torso(k) => {
                let mut crash = Perturb::canonical();
                crash.cwd_b = p.cwd_b;
                crash.hash_seed = p.hash_seed ^ 0x5555;
                crash.wr_crash_at = Some(*k);
                let o = run_proc(ctx, wd, job, &text, &crash, true);
                st.procs += 1;
                note_fired(&o.log, st);
                clear = false;
            }
        }
    }

    if let Some(sib) = &p.prev_run {
        // process history: same name, other text, same environment; whatever it leaves behind in
        // HOME / TMPDIR / the output directory is what the judged run starts from
        let mut q = p.clone();
        q.prev_run = None;
        q.rd_fail_at = None;
        q.wr_fail_at = None;
        q.wr_crash_at = None;
        q.rd_rate = 0;
        q.wr_rate = 0;
        let prev_text = sib.apply(&text);
        let _ = run_proc(ctx, wd, job, &prev_text, &q, clear);
        st.procs += 1;
    }
    let got = run_proc(ctx, wd, job, &text, p, clear && p.prev_run.is_none());
    st.procs += 1;
    note_fired(&got.log, st);
    if job.backend == Backend::Java && !got.log.sink_open_order.is_empty() {
        st.open_order_hash = Some(stable_hash(&got.log.sink_open_order));
    }

    // I4
    if got.status >= 1000 {
        return Some(Violation { invariant: "I4", detail: format!("process killed by signal {} under the fault plan (24 = more than {CPU_LIMIT_S}s of CPU, 14 = blocked for {TIMEOUT_S}s; a normal compilation needs < 1 s of CPU)", got.status - 1000) });
    }

    let hard_fired = got.log.counts.contains_key("rd_hard") || got.log.counts.contains_key("wr_hard") || got.log.counts.contains_key("wr_crash");

    match r.status {
        0 => {
            if hard_fired {
                // I2: no partial success
                // (a tool that ends quietly with status 0 when its reader went away — EPIPE — follows a
                // common CLI convention; that case is not judged, only the prefix property below is)
                let epipe = matches!(p.wr_fail_at, Some((_, 32))) && !got.log.counts.contains_key("rd_hard") && !got.log.counts.contains_key("wr_crash");
                if got.status == 0 && !epipe {
                    return Some(Violation { invariant: "I2", detail: "a hard I/O error or crash fired but the process reported success (exit 0)".into() });
                }
                if got.log.counts.contains_key("rd_hard") && !got.stdout.is_empty() {
                    return Some(Violation { invariant: "I2", detail: format!("source read failed but {} bytes were written to stdout", got.stdout.len()) });
                }
                if !r.stdout.starts_with(&got.stdout) {
                    return Some(Violation {
                        invariant: "I2",
                        detail: format!("after a hard fault stdout is not a prefix of the reference (first diff at {:?})", first_diff(&r.stdout, &got.stdout)),
                    });
                }
                if job.backend == Backend::Java && matches!(p.java_hist, JavaHist::Empty) && p.prev_run.is_none() {
                    for (name, content) in &got.files {
                        match r.files.get(name) {
                            Some(rc) if rc.starts_with(content) => {}
                            Some(_) => return Some(Violation { invariant: "I2", detail: format!("after a hard fault class file {name} is not a prefix of its reference") }),
                            // a stray file under another name (e.g. the temporary of an atomic write that was
                            // interrupted) is not output of the description: counted, not judged
                            None => bump(&mut st.enabled, "stray_file_after_failed_run(not_judged)", 1),
                        }
                    }
                }
                // crash-restart idempotence for any crashed/failed java run: a clean re-run repairs the directory (I3)
                if job.backend == Backend::Java {
                    let mut clean = Perturb::canonical();
                    clean.cwd_b = p.cwd_b;
                    clean.hash_seed = p.hash_seed;
                    let again = run_proc(ctx, wd, job, &text, &clean, false);
                    st.procs += 1;
                    if again.status != 0 {
                        return Some(Violation { invariant: "I3", detail: format!("clean re-run after a failed run exits {}", again.status) });
                    }
                    if let Some(d) = compare_java(&r, &again, false) {
                        return Some(Violation { invariant: "I3", detail: format!("after crash/failure and a clean re-run: {d}") });
                    }
                }
            } else {
                // I1 identity
                if got.status != 0 {
                    return Some(Violation {
                        invariant: "I1",
                        detail: format!("accepted by the reference run but exit status {} here; stderr: {}", got.status, stderr_excerpt(&got.stderr, 300)),
                    });
                }
                if let Some(at) = first_diff(&r.stdout, &got.stdout) {
                    return Some(Violation {
                        invariant: "I1",
                        detail: format!(
                            "stdout differs from the reference at byte {at} (len {} vs {}); reference: {:?} / here: {:?}",
                            r.stdout.len(),
                            got.stdout.len(),
                            simcore::excerpt(&r.stdout, at),
                            simcore::excerpt(&got.stdout, at)
                        ),
                    });
                }
                if job.backend == Backend::Java {
                    // after a crashed earlier run stray temporary files may legitimately remain: only the
                    // class files of the description are judged then (as for a sibling's leftovers)
                    // (ClassesFirst: the class files are extra files of another command; only the test file is judged)
                    let exact = matches!(p.java_hist, JavaHist::Empty | JavaHist::Same | JavaHist::LongerStale(_)) && p.prev_run.is_none();
                    if let Some(d) = compare_java(&r, &got, exact) {
                        let inv = if matches!(p.java_hist, JavaHist::Empty) { "I1" } else { "I3" };
                        return Some(Violation { invariant: inv, detail: format!("{d} (directory history {:?})", p.java_hist) });
                    }
                }
            }
        }
        _ => {
            // rejected (1) or crashed (101) by the reference: the verdict must not depend on the environment
            if !hard_fired {
                let same_class = (got.status == 0) == (r.status == 0);
                if !same_class {
                    return Some(Violation { invariant: "I1", detail: format!("reference run exits {} but this run exits {}", r.status, got.status) });
                }
                if !got.stdout.is_empty() && r.stdout.is_empty() {
                    return Some(Violation { invariant: "I1", detail: format!("reference run prints nothing on stdout (exit {}), this run printed {} bytes", r.status, got.stdout.len()) });
                }
                if r.status == 1 && strip_ansi(&got.stderr) != strip_ansi(&r.stderr) {
                    st.rejected_diag_mismatch = true; // canary only, outside the property's quantifier
                }
            }
        }
    }
    None
}

/// Declaration graph of the job's source after the backend's standing excludes.
pub fn decl_graph(ctx: &Ctx, wd: &WorkerDir, job: &Job, text: &str, st: &mut RunStats) -> Option<DeclGraph> {
    let c = &ctx.corpus;
    let mut jjob = Job { backend: Backend::Json, extra_excl: vec![], extra_args: vec![], ..job.clone() };
    // the JSON run must carry the same standing exclude list as the backend job
    jjob.extra_excl = c.entries[job.entry].opts_for(job.backend).exclude.clone();
    let jr = reference(ctx, wd, &jjob, text);
    st.procs += 1;
    if jr.status != 0 {
        return None;
    }
    let v: Value = serde_json::from_slice(&jr.stdout).ok()?;
    Some(DeclGraph::from_json(&v))
}

/// I5 for an explicit exclusion set `job.extra_excl` (must be leaves of the graph).
pub fn check_exclusion(ctx: &Ctx, wd: &WorkerDir, job: &Job, st: &mut RunStats) -> Option<Violation> {
    let c = &ctx.corpus;
    let text = job.text(c);
    let g = decl_graph(ctx, wd, job, &text, st)?;
    let leaves: BTreeSet<String> = g.leaves().into_iter().collect();
    let e: Vec<String> = job.extra_excl.iter().filter(|x| leaves.contains(*x)).cloned().collect();
    if e.is_empty() || e.len() != job.extra_excl.len() {
        return None;
    }
    let base_job = Job { extra_excl: vec![], ..job.clone() };
    let base = reference(ctx, wd, &base_job, &text);
    st.procs += 1;
    if base.status != 0 {
        return None;
    }
    let mut family: BTreeSet<String> = BTreeSet::new();
    for x in &e {
        family.extend(g.family(x));
    }
    let eout = reference(ctx, wd, job, &text);
    st.procs += 1;
    if eout.status != 0 && family.len() > e.len() {
        // some excluded declaration has relatives (a parent, siblings): the backend may fail on THEM
        // (e.g. the Java backend refuses a packet with a body and no children left) — that concerns
        // declarations related to E by inheritance, about which the property claims nothing. Counted.
        bump(&mut st.enabled, "exclusion_leaves_relatives_unsupported(not_judged)", 1);
        return None;
    }
    if eout.status != 0 {
        return Some(Violation {
            invariant: "I5",
            detail: format!(
                "excluding the leaf declarations {:?} turns an accepted compilation into exit {}: {}",
                e,
                eout.status,
                stderr_excerpt(&eout.stderr, 300)
            ),
        });
    }
    let (stats, diff) = if job.backend == Backend::Java {
        items::exclusion_diff_files(&base.files, &eout.files, &g.ids, &family)
    } else {
        match (items::split_items(job.backend, &base.stdout), items::split_items(job.backend, &eout.stdout)) {
            (Some(a), Some(b)) => items::exclusion_diff_items(&a, &b, &g.ids, &family),
            _ => (items::ExclusionStats::default(), None),
        }
    };
    st.excl_items_compared += stats.compared as u64;
    st.excl_items_skipped += stats.skipped_related as u64;
    bump(&mut st.enabled, "exclusion_set", 1);
    diff.map(|d| Violation { invariant: "I5", detail: format!("excluding {:?} (families {:?}): {d}", e, family.iter().take(8).collect::<Vec<_>>()) })
}

/// Draw E among the leaves and check I5.
pub fn execute_exclusion(ctx: &Ctx, wd: &WorkerDir, job: &Job, rng: &mut Rng, st: &mut RunStats) -> (Option<Job>, Option<Violation>) {
    let text = job.text(&ctx.corpus);
    let g = match decl_graph(ctx, wd, job, &text, st) {
        Some(g) => g,
        None => return (None, None),
    };
    st.n_decls = g.ids.len();
    let leaves = g.leaves();
    if leaves.is_empty() {
        return (None, None);
    }
    let n = 1 + rng.below((leaves.len() as u64).min(4)) as usize;
    let mut pool = leaves.clone();
    rng.shuffle(&mut pool);
    let mut e: Vec<String> = pool.into_iter().take(n).collect();
    e.sort();
    let ejob = Job { extra_excl: e, ..job.clone() };
    let base = reference(ctx, wd, job, &text);
    if base.status != 0 {
        return (None, None);
    }
    let v = check_exclusion(ctx, wd, &ejob, st);
    (Some(ejob), v)
}

pub fn run_one(ctx: &Ctx, wd: &WorkerDir, seed: u64, run: u64) -> RunResult {
    let mut rng = Rng::for_run(seed, TAG_P, run);
    let mut job = draw_job(&mut rng, &ctx.corpus);
    let mut st = RunStats::default();
    let mut violation = None;
    // one run in four also exercises an exclusion set; the perturbed run then uses the E-job
    if rng.below(4) == 0 && !job.extra_args.iter().any(|a| a == "--test-file") {
        let (ej, v) = execute_exclusion(ctx, wd, &job, &mut rng, &mut st);
        violation = v;
        if let Some(ej) = ej {
            job = ej;
        }
    }
    let text = job.text(&ctx.corpus);
    let r = reference(ctx, wd, &job, &text);
    let p = draw_perturb(&mut rng, job.backend, &r, job.extra_args.iter().any(|a| a == "--test-file"));
    if violation.is_none() {
        violation = execute(ctx, wd, &job, &p, &mut st);
    }
    let decls = text.matches("packet ").count() + text.matches("struct ").count() + text.matches("enum ").count();
    st.nontrivial = decls >= 2 && p != Perturb::canonical() && !st.fired.is_empty();
    let plan_digest = stable_hash(&(run, format!("{:?}", job), format!("{:?}", p)));
    // (the number of short/interrupted writes is not part of the observation: a panicking pdlc prints
    // its OS thread id, whose digit count varies, so the amount written to stderr is not reproducible)
    let hard: Vec<(&String, &u64)> = st.fired.iter().filter(|(k, _)| matches!(k.as_str(), "rd_hard" | "wr_hard" | "wr_crash")).collect();
    let obs_digest = stable_hash(&(violation.as_ref().map(|v| (v.invariant, v.detail.clone())), format!("{:?}", hard), st.open_order_hash, st.ref_status));
    RunResult { job, perturb: p, violation, stats: st, plan_digest, obs_digest }
}
