//! Tier S of ENV-SIM: the compiler rebuilt with shuttle's synchronisation primitives in place
//! of std's (tools/mk_shuttle_ws.py, sim/shutsim). Reaches interleavings *between two
//! synchronisation operations of the code under test*, where the baton of tier L (which can
//! only switch at yield points) cannot go. One process per schedule, cold; every output is
//! compared with the same scenario executed sequentially in another process.

use crate::report::Known;
use crate::Paths;
use serde_json::{json, Value};
use simcore::write_json;
use std::path::{Path, PathBuf};
use std::process::Command;
use std::time::Instant;

pub struct TierSOutcome {
    pub executions: u64,
    pub wall_s: f64,
    pub violations: Vec<(Value, PathBuf)>,
    pub known_hits: Vec<String>,
    pub stats: Value,
}

fn shutsim() -> Option<PathBuf> {
    let p = PathBuf::from(std::env::var("VERIF_SHUTSIM").ok()?);
    if p.as_os_str().is_empty() || !p.exists() {
        None
    } else {
        Some(p)
    }
}

pub fn run_tier(paths: &Paths, seed: u64, rounds: u64, schedules: u64, known: &Known) -> Result<TierSOutcome, String> {
    let t0 = Instant::now();
    let exe = match shutsim() {
        Some(e) => e,
        None => {
            return Ok(TierSOutcome { executions: 0, wall_s: 0.0, violations: vec![], known_hits: vec![], stats: json!({"skipped": "the shuttle build of the code under test is not available (a primitive shuttle does not model, or the tier was not built)"}) })
        }
    };
    let o = Command::new(&exe).args(["check", "compile", &seed.to_string(), &rounds.to_string(), &schedules.to_string()]).env("VERIF_DIR", &paths.verif).stderr(std::process::Stdio::null()).output().map_err(|e| format!("shutsim: {e}"))?;
    let v: Value = serde_json::from_slice(&o.stdout).map_err(|e| format!("shutsim output: {e}"))?;
    let mut out = TierSOutcome { executions: v["executions"].as_u64().unwrap_or(0), wall_s: 0.0, violations: vec![], known_hits: vec![], stats: json!({}) };
    for x in v["violations"].as_array().cloned().unwrap_or_default() {
        let sig = json!({"tier": "S", "invariant": "I1", "entry": x["job"], "backend": Value::Null, "detail": x["detail"]});
        if let Some(f) = known.matches(&sig) {
            out.known_hits.push(f["what"].as_str().unwrap_or("known finding").to_string());
            continue;
        }
        if out.violations.len() < 6 {
            let path = paths.out.join("replays").join(format!("C11-{seed}-S{}-{}.json", x["round"], x["sched_seed"]));
            let doc = json!({
                "property": "C11", "tier": "S", "seed": seed, "run": x["round"], "sched_seed": x["sched_seed"],
                "violation": {"invariant": "I1", "detail": x["detail"], "job": x["job"]},
                "replay": format!("bin/check C11 --replay {}", path.display()),
                "note": "shuttle schedule = scheduler seed (odd: random, even: PCT depth 3) over a cold process; the scenario (jobs, threads) is a function of (seed, run)",
            });
            write_json(&path, &doc).map_err(|e| e.to_string())?;
            out.violations.push((sig, path));
        }
    }
    out.wall_s = t0.elapsed().as_secs_f64();
    out.stats = json!({
        "rounds": v["rounds"], "executions_one_cold_process_each": v["executions"], "scenarios": v["scenarios"], "schedules_per_round": schedules, "executions_stopped_by_the_real_time_guard_inconclusive": v["guarded_out"], "wall_s": out.wall_s,
        "schedulers": "shuttle RandomScheduler (odd schedule seeds) and PctScheduler depth 3 (even)",
        "scheduling_points": "every std::sync / std::thread / thread_local! use of pdl-compiler and pdl-runtime (textually replaced by shuttle's in a scratch copy); none exists on the unchanged tree, where this tier degenerates to running the threads one after another",
    });
    Ok(out)
}

pub fn replay(paths: &Paths, v: &Value, file: &Path) -> i32 {
    let exe = match shutsim() {
        Some(e) => e,
        None => {
            eprintln!("envsim: tier S is not built");
            return 2;
        }
    };
    let one = |sched: &str| -> Option<Value> {
        let o = Command::new(&exe).args(["one", "compile", &v["seed"].to_string(), &v["run"].to_string(), sched]).env("VERIF_DIR", &paths.verif).stderr(std::process::Stdio::null()).output().ok()?;
        serde_json::from_slice(&o.stdout).ok()
    };
    let sched = v["sched_seed"].to_string();
    match (one("ref"), one(&sched)) {
        (Some(r), Some(p)) => {
            if r["outputs"] != p["outputs"] {
                println!("reproduced: invariant I1 — outputs under shuttle schedule {sched} differ from the sequential execution: {} vs {}", p["outputs"], r["outputs"]);
                println!("VIOLATION property=C11 replay={}", file.display());
                1
            } else {
                println!("not reproduced on the current tree");
                0
            }
        }
        (Some(_), None) => {
            println!("reproduced: the execution under shuttle schedule {sched} does not complete");
            println!("VIOLATION property=C11 replay={}", file.display());
            1
        }
        _ => 2,
    }
}
