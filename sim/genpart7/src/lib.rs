//! Part 7 of the code `pdlc` generated for the codec corpus (written by bufgen --parts),
//! a crate of its own so that the parts compile in parallel.
#![allow(warnings, unused)]
include!(concat!(env!("BUFSIM_GEN"), "/part7.rs"));
