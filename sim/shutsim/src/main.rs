//! shutsim — tier S of both simulators: pdl-compiler and pdl-runtime rebuilt with every
//! `std::sync` / `std::thread` / `thread_local!` replaced by shuttle's (tools/mk_shuttle_ws.py),
//! so that any lock, atomic, Once, condvar, channel or thread-local the code under test uses
//! is a scheduling point of shuttle's seeded scheduler. The baton of tier L can only switch
//! at yield points somebody placed; this tier reaches the windows *between two synchronisation
//! operations* of the code under test itself (check-then-act on a lock, flag published before
//! the data, an atomic read-modify-write done in two steps).
//!
//! One process = one cold execution under one schedule (process-global state of the code
//! under test cannot be reset between shuttle iterations, and "first use in the process" is
//! exactly where lazily initialised tables race). The parent mode spawns the processes,
//! compares every output with the same scenario executed sequentially in yet another process,
//! and prints a JSON summary.
//!
//!   shutsim one compile|runtime <verif_seed> <round> <sched_seed|ref>
//!   shutsim check compile|runtime <verif_seed> <rounds> <schedules_per_round>

mod corpus;
pub mod laws;
mod sim;
pub mod simbuf;
#[allow(unused_imports)]
mod buflaws {
    pub(crate) use crate::laws;
    pub(crate) use crate::simbuf;
}
#[allow(warnings, unused)]
mod gen {
    include!(concat!(env!("BUFSIM_GEN"), "/registry.rs"));
}

use corpus::{Backend, Corpus, Sibling};
use pdl_compiler::{analyzer, ast, backends, parser};
use serde_json::{json, Value};
use simcore::{stable_hash, Rng};
use std::collections::BTreeMap;
use std::path::PathBuf;
use std::sync::{Arc, Mutex};

const TAG_S: u64 = 0x53;

fn verif_dir() -> PathBuf {
    PathBuf::from(std::env::var("VERIF_DIR").unwrap_or_else(|_| "/verif".into()))
}

fn runner(sched: &str) -> shuttle::Runner<Box<dyn shuttle::scheduler::Scheduler + Send>> {
    let mut cfg = shuttle::Config::new();
    cfg.stack_size = 32 << 20; // pdl-compiler's generators recurse through quote/prettyplease
    cfg.max_steps = shuttle::MaxSteps::None;
    let s: Box<dyn shuttle::scheduler::Scheduler + Send> = match sched.parse::<u64>() {
        // odd seeds: uniformly random choice at every scheduling point; even seeds: PCT with depth 3
        Ok(seed) if seed % 2 == 1 => Box::new(shuttle::scheduler::RandomScheduler::new_from_seed(seed, 1)),
        Ok(seed) => Box::new(shuttle::scheduler::PctScheduler::new_from_seed(seed, 3, 1)),
        Err(_) => Box::new(shuttle::scheduler::RandomScheduler::new_from_seed(0, 1)),
    };
    shuttle::Runner::new(s, cfg)
}

// ---------------------------------------------------------------- compile scenario (C11)

#[derive(Clone)]
struct CJob {
    key: String,
    text: String,
    name: String,
    backend: Backend,
}

fn compile_one(db: &mut ast::SourceDatabase, j: &CJob) -> String {
    let r = std::panic::catch_unwind(std::panic::AssertUnwindSafe(|| {
        let file = match parser::parse_inline(db, &j.name, j.text.clone()) {
            Ok(f) => f,
            Err(_) => return "rejected:parse".to_string(),
        };
        let a = match analyzer::analyze(&file) {
            Ok(a) => a,
            Err(_) => return "rejected:analyze".to_string(),
        };
        generate(db, &file, &a, j.backend)
    }));
    r.unwrap_or_else(|_| "panicked".to_string())
}

fn generate(db: &ast::SourceDatabase, parsed: &ast::File, a: &ast::File, b: Backend) -> String {
    match b {
        Backend::Json => backends::json::generate(parsed).unwrap_or_else(|e| format!("err:{e}")),
        Backend::Rust => backends::rust::generate(db, a, &[]),
        Backend::Python => backends::python::generate(db, a, None, &[]),
        Backend::Cxx => backends::cxx::generate(db, a, None, &[], &[], &[]),
        Backend::Java => "skipped".to_string(),
    }
}

struct CScenario {
    shared_file: bool,
    jobs: Vec<CJob>,
}

fn draw_compile(verif_seed: u64, round: u64) -> Result<CScenario, String> {
    let c = Corpus::load(&verif_dir().join("corpus"))?;
    let mut rng = Rng::for_run(verif_seed, TAG_S, round);
    let small: Vec<usize> = c.entries.iter().enumerate().filter(|(_, e)| e.opts.is_empty() && e.text.len() < 6000 && (e.id.starts_with("snap_") || e.id.starts_with("pdltests_") || e.id.starts_with("hand_") || e.id.starts_with("example_"))).map(|(i, _)| i).collect();
    let bs = [Backend::Rust, Backend::Python, Backend::Cxx, Backend::Json];
    let shared_file = rng.below(2) == 0;
    // three times out of four a description with inheritance: parents enumerate their children,
    // the kind of derived, lazily built information a shared `File` may start to cache
    let with_children: Vec<usize> = small.iter().copied().filter(|i| { let t = &c.entries[*i].text; t.lines().any(|l| { let l = l.trim_start(); (l.starts_with("packet ") || l.starts_with("struct ")) && l.split('{').next().map(|h| h.contains(" : ")).unwrap_or(false) }) }).collect();
    let e = if !with_children.is_empty() && rng.below(4) != 0 { &c.entries[*rng.pick(&with_children)] } else { &c.entries[*rng.pick(&small)] };
    let mut jobs = Vec::new();
    let n = rng.range(2, 4) as usize;
    if shared_file {
        // several backends (possibly the same one twice) on ONE analyzed file, at the same time
        for i in 0..n {
            let b = *rng.pick(&bs);
            jobs.push(CJob { key: format!("{}#{}#{}", e.id, b.name(), i), text: e.text.clone(), name: format!("src/{}.pdl", e.id), backend: b });
        }
    } else {
        // independent compilations: the entry, its byte-order twin, another entry — same backend
        // more often than not, so that per-backend global state is contended
        let b0 = *rng.pick(&bs);
        for i in 0..n {
            let (text, id) = match i {
                0 => (e.text.clone(), e.id.clone()),
                1 => (Sibling::FlipEndian.apply(&e.text), format!("{}~flip", e.id)),
                _ => {
                    let o = &c.entries[*rng.pick(&small)];
                    (o.text.clone(), o.id.clone())
                }
            };
            let b = if rng.below(3) == 0 { *rng.pick(&bs) } else { b0 };
            jobs.push(CJob { key: format!("{}#{}#{}", id, b.name(), i), text, name: format!("src/{}.pdl", e.id), backend: b });
        }
    }
    Ok(CScenario { shared_file, jobs })
}

fn one_compile(verif_seed: u64, round: u64, sched: &str) -> Value {
    let sc = match draw_compile(verif_seed, round) {
        Ok(s) => s,
        Err(e) => return json!({"error": e}),
    };
    let sequential = sched == "ref";
    let out: Arc<Mutex<BTreeMap<String, String>>> = Arc::new(Mutex::new(BTreeMap::new()));
    let out2 = out.clone();
    let jobs = sc.jobs.clone();
    let shared = sc.shared_file;
    runner(sched).run(move || {
        let out = out2.clone();
        if shared {
            let mut db = ast::SourceDatabase::new();
            let j0 = &jobs[0];
            let parsed = match parser::parse_inline(&mut db, &j0.name, j0.text.clone()) {
                Ok(f) => f,
                Err(_) => return,
            };
            let analyzed = match analyzer::analyze(&parsed) {
                Ok(a) => a,
                Err(_) => return,
            };
            let ctx = Arc::new((db, parsed, analyzed));
            let mut hs = Vec::new();
            for j in jobs.iter().cloned() {
                let ctx = ctx.clone();
                let out = out.clone();
                let work = move || {
                    let r = std::panic::catch_unwind(std::panic::AssertUnwindSafe(|| generate(&ctx.0, &ctx.1, &ctx.2, j.backend))).unwrap_or_else(|_| "panicked".into());
                    out.lock().unwrap().insert(j.key.clone(), r);
                };
                if sequential {
                    work();
                } else {
                    hs.push(shuttle::thread::spawn(work));
                }
            }
            for h in hs {
                let _ = h.join();
            }
        } else {
            let mut hs = Vec::new();
            for j in jobs.iter().cloned() {
                let out = out.clone();
                let work = move || {
                    let mut db = ast::SourceDatabase::new();
                    let r = compile_one(&mut db, &j);
                    out.lock().unwrap().insert(j.key.clone(), r);
                };
                if sequential {
                    work();
                } else {
                    hs.push(shuttle::thread::spawn(work));
                }
            }
            for h in hs {
                let _ = h.join();
            }
        }
    });
    let m = out.lock().unwrap();
    json!({
        "scenario": if sc.shared_file { "shared_analyzed_file" } else { "independent_compilations" },
        "jobs": sc.jobs.iter().map(|j| j.key.clone()).collect::<Vec<_>>(),
        "outputs": m.iter().map(|(k, v)| (k.clone(), json!({"hash": stable_hash(v).to_string(), "len": v.len(), "head": v.chars().take(0).collect::<String>()}))).collect::<BTreeMap<_, _>>(),
    })
}

// ---------------------------------------------------------------- runtime scenario (C18)

fn one_runtime(verif_seed: u64, round: u64, sched: &str) -> Value {
    std::panic::set_hook(Box::new(|_| {}));
    let sequential = sched == "ref";
    let w = Arc::new(sim::World::new(gen::registry(), &verif_dir()));
    let viol: Arc<Mutex<Vec<Value>>> = Arc::new(Mutex::new(Vec::new()));
    let ops: Arc<Mutex<u64>> = Arc::new(Mutex::new(0));
    let (v2, o2, w2) = (viol.clone(), ops.clone(), w.clone());
    let mut rng0 = Rng::for_run(verif_seed, TAG_S ^ 0x100, round);
    let nthreads = rng0.range(2, 3);
    runner(sched).run(move || {
        let mut hs = Vec::new();
        for t in 0..nthreads {
            let (w, viol, ops) = (w2.clone(), v2.clone(), o2.clone());
            let work = move || {
                let mut rng = Rng::for_run(verif_seed, TAG_S ^ 0x200, round * 8 + t);
                let modules: Vec<&&'static str> = w.by_module.keys().collect();
                let module: &'static str = **rng.pick(&modules);
                let all = &w.by_module[module];
                let nt = rng.range(1, 4.min(all.len() as u64)) as usize;
                let mut idx = all.clone();
                rng.shuffle(&mut idx);
                idx.truncate(nt);
                let types: Vec<&laws::TypeOps> = idx.iter().map(|i| &w.reg[*i]).collect();
                let seeds: Vec<Vec<laws::Prov>> = idx.iter().map(|i| sim::seeds_for(&w, *i, &mut rng)).collect();
                let sw = sim::draw_swarm(&mut rng);
                let mut s = sim::Sim::new(types.clone(), seeds);
                for i in 0..40 {
                    let e = sim::draw_event(&mut rng, &s, &sw);
                    *ops.lock().unwrap() += 1;
                    if let Err(v) = s.step(&e, i) {
                        viol.lock().unwrap().push(json!({"thread": t, "law": v.law, "type": v.ty, "module": v.module, "detail": v.detail, "event": sim::event_to_json(&e, &types)}));
                        break;
                    }
                }
            };
            if sequential {
                work();
            } else {
                hs.push(shuttle::thread::spawn(work));
            }
        }
        for h in hs {
            let _ = h.join();
        }
    });
    let v = viol.lock().unwrap().clone();
    let n = *ops.lock().unwrap();
    json!({"scenario": "concurrent_callers_of_the_trait", "threads": nthreads, "events": n, "violations": v})
}

// ---------------------------------------------------------------- parent

/// One cold process per execution, in its own process group and with a real-time guard: code under
/// test that starts helper processes or blocks on something outside shuttle's view would otherwise
/// stall the whole tier. A guarded-out execution is inconclusive (counted, never judged).
fn spawn_one(kind: &str, seed: u64, round: u64, sched: &str) -> Option<Value> {
    use std::io::Read;
    use std::os::unix::process::CommandExt;
    let exe = std::env::current_exe().ok()?;
    let mut child = std::process::Command::new(exe)
        .args(["one", kind, &seed.to_string(), &round.to_string(), sched])
        .stdin(std::process::Stdio::null())
        .stdout(std::process::Stdio::piped())
        .stderr(std::process::Stdio::null())
        .process_group(0)
        .spawn()
        .ok()?;
    let mut out = child.stdout.take()?;
    let reader = std::thread::spawn(move || {
        let mut b = Vec::new();
        let _ = out.read_to_end(&mut b);
        b
    });
    let t0 = std::time::Instant::now();
    let status = loop {
        match child.try_wait() {
            Ok(Some(st)) => break Some(st),
            Ok(None) => {}
            Err(_) => break None,
        }
        if t0.elapsed().as_secs() >= GUARD_S {
            break None;
        }
        std::thread::sleep(std::time::Duration::from_millis(5));
    };
    // whatever the execution left behind (helpers holding the pipe) goes with its group
    let _ = std::process::Command::new("kill").args(["-9", "--", &format!("-{}", child.id())]).stderr(std::process::Stdio::null()).status();
    let _ = child.wait();
    let bytes = reader.join().unwrap_or_default();
    let status = match status {
        Some(s) => s,
        None => return Some(json!({"timeout": GUARD_S})),
    };
    if !status.success() {
        return Some(json!({"crashed": format!("{}", status)}));
    }
    serde_json::from_slice(&bytes).ok()
}

const GUARD_S: u64 = 60;

fn check(kind: &str, seed: u64, rounds: u64, schedules: u64) -> i32 {
    let mut executions = 0u64;
    let mut violations: Vec<Value> = Vec::new();
    let mut rounds_done = 0u64;
    let mut guarded = 0u64;
    let mut events = 0u64;
    let mut scenarios: BTreeMap<String, u64> = BTreeMap::new();
    let nworkers = std::thread::available_parallelism().map(|n| n.get()).unwrap_or(8) as u64;
    for round in 0..rounds {
        // code under test that keeps running into the guard makes the tier inconclusive, not endless
        if guarded >= 3 {
            break;
        }
        let reference = match spawn_one(kind, seed, round, "ref") {
            Some(r) if r["crashed"].is_null() && r["error"].is_null() && r["timeout"].is_null() => r,
            Some(r) if !r["timeout"].is_null() => {
                guarded += 1;
                continue;
            }
            _ => continue,
        };
        rounds_done += 1;
        *scenarios.entry(reference["scenario"].as_str().unwrap_or("?").to_string()).or_insert(0) += 1;
        // schedules in parallel OS processes
        let mut handles = Vec::new();
        let kind_s = kind.to_string();
        for chunk in 0..nworkers.min(schedules) {
            let kind_s = kind_s.clone();
            handles.push(std::thread::spawn(move || {
                let mut res = Vec::new();
                let mut s = chunk;
                while s < schedules {
                    let sched_seed = 1 + round * 1000 + s;
                    res.push((sched_seed, spawn_one(&kind_s, seed, round, &sched_seed.to_string())));
                    s += nworkers.min(schedules);
                }
                res
            }));
        }
        for h in handles {
            for (sched_seed, r) in h.join().unwrap_or_default() {
                executions += 1;
                let r = match r {
                    Some(r) => r,
                    None => continue,
                };
                if !r["timeout"].is_null() {
                    guarded += 1;
                    continue;
                }
                if !r["crashed"].is_null() {
                    violations.push(json!({"round": round, "sched_seed": sched_seed, "detail": format!("the execution under schedule {sched_seed} did not complete ({}): deadlock or abort inside the code under test", r["crashed"])}));
                    continue;
                }
                if kind == "compile" {
                    let (ro, po) = (&reference["outputs"], &r["outputs"]);
                    for (k, v) in ro.as_object().cloned().unwrap_or_default() {
                        if po[&k] != v {
                            violations.push(json!({"round": round, "sched_seed": sched_seed, "job": k,
                                "detail": format!("{} — job {k}: output under schedule {sched_seed} (len {}) differs from the same compilation executed alone (len {})", r["scenario"].as_str().unwrap_or(""), po[&k]["len"], v["len"])}));
                        }
                    }
                } else {
                    events += r["events"].as_u64().unwrap_or(0);
                    let ref_laws: Vec<String> = reference["violations"].as_array().cloned().unwrap_or_default().iter().map(|v| format!("{}/{}", v["law"], v["type"])).collect();
                    for v in r["violations"].as_array().cloned().unwrap_or_default() {
                        if !ref_laws.contains(&format!("{}/{}", v["law"], v["type"])) {
                            violations.push(json!({"round": round, "sched_seed": sched_seed, "law": v["law"], "type": v["type"], "module": v["module"],
                                "detail": format!("with {} concurrent callers under schedule {sched_seed}: {}", r["threads"], v["detail"].as_str().unwrap_or(""))}));
                        }
                    }
                }
            }
        }
        if violations.len() > 20 {
            break;
        }
    }
    println!("{}", json!({"kind": kind, "rounds": rounds_done, "executions": executions, "events": events, "scenarios": scenarios, "guarded_out": guarded, "violations": violations}));
    0
}

fn main() {
    let args: Vec<String> = std::env::args().collect();
    let num = |i: usize| args.get(i).and_then(|s| s.parse::<u64>().ok()).unwrap_or(1);
    match args.get(1).map(|s| s.as_str()) {
        Some("one") => {
            std::panic::set_hook(Box::new(|_| {}));
            let kind = args.get(2).map(|s| s.as_str()).unwrap_or("compile");
            let sched = args.get(5).map(|s| s.as_str()).unwrap_or("ref");
            let v = if kind == "compile" { one_compile(num(3), num(4), sched) } else { one_runtime(num(3), num(4), sched) };
            println!("{v}");
        }
        Some("check") => {
            let kind = args.get(2).map(|s| s.as_str()).unwrap_or("compile").to_string();
            std::process::exit(check(&kind, num(3), num(4), num(5)));
        }
        _ => {
            eprintln!("usage: shutsim one|check compile|runtime <verif_seed> <round|rounds> <sched|schedules>");
            std::process::exit(2);
        }
    }
}
