//! Shared pieces of the two simulators: the PRNG every choice is drawn from, a
//! process-independent hash for "distinct" counters, and small JSON/file helpers.

use std::hash::{Hash, Hasher};

/// SplitMix64 step (used for seeding and for deriving per-run seeds).
pub fn splitmix(x: &mut u64) -> u64 {
    *x = x.wrapping_add(0x9E3779B97F4A7C15);
    let mut z = *x;
    z = (z ^ (z >> 30)).wrapping_mul(0xBF58476D1CE4E5B9);
    z = (z ^ (z >> 27)).wrapping_mul(0x94D049BB133111EB);
    z ^ (z >> 31)
}

/// xoshiro256** — the same 30 lines as in shim/pdlsim.c.
#[derive(Clone, Debug)]
pub struct Rng {
    s: [u64; 4],
}

impl Rng {
    pub fn new(seed: u64) -> Rng {
        let mut x = seed;
        let mut s = [0u64; 4];
        for v in s.iter_mut() {
            *v = splitmix(&mut x);
        }
        Rng { s }
    }
    /// Independent stream for (seed, domain tag, run index).
    pub fn for_run(seed: u64, tag: u64, run: u64) -> Rng {
        let mut x = seed ^ tag.wrapping_mul(0xA24BAED4963EE407);
        let a = splitmix(&mut x);
        let mut y = a ^ run.wrapping_mul(0x9FB21C651E98DF25);
        let b = splitmix(&mut y);
        Rng::new(b)
    }
    pub fn next(&mut self) -> u64 {
        let s = &mut self.s;
        let result = s[1].wrapping_mul(5).rotate_left(7).wrapping_mul(9);
        let t = s[1] << 17;
        s[2] ^= s[0];
        s[3] ^= s[1];
        s[1] ^= s[2];
        s[0] ^= s[3];
        s[2] ^= t;
        s[3] = s[3].rotate_left(45);
        result
    }
    /// Uniform in 0..n (n > 0).
    pub fn below(&mut self, n: u64) -> u64 {
        debug_assert!(n > 0);
        // multiply-shift; bias is irrelevant here
        ((self.next() as u128 * n as u128) >> 64) as u64
    }
    pub fn range(&mut self, lo: u64, hi_incl: u64) -> u64 {
        lo + self.below(hi_incl - lo + 1)
    }
    pub fn chance(&mut self, num: u64, den: u64) -> bool {
        self.below(den) < num
    }
    pub fn pick<'a, T>(&mut self, v: &'a [T]) -> &'a T {
        &v[self.below(v.len() as u64) as usize]
    }
    pub fn shuffle<T>(&mut self, v: &mut [T]) {
        for i in (1..v.len()).rev() {
            let j = self.below(i as u64 + 1) as usize;
            v.swap(i, j);
        }
    }
}

/// Process-independent 64-bit hash (SipHash with zero keys).
pub fn stable_hash<T: Hash + ?Sized>(t: &T) -> u64 {
    #[allow(deprecated)]
    let mut h = std::hash::SipHasher::new_with_keys(0, 0);
    t.hash(&mut h);
    h.finish()
}

pub fn hex(b: &[u8]) -> String {
    let mut s = String::with_capacity(b.len() * 2);
    for x in b {
        s.push_str(&format!("{:02x}", x));
    }
    s
}

pub fn unhex(s: &str) -> Option<Vec<u8>> {
    if s.len() % 2 != 0 {
        return None;
    }
    (0..s.len() / 2).map(|i| u8::from_str_radix(&s[2 * i..2 * i + 2], 16).ok()).collect()
}

/// First differing byte offset of two byte strings (None if equal).
pub fn first_diff(a: &[u8], b: &[u8]) -> Option<usize> {
    if a == b {
        return None;
    }
    let n = a.len().min(b.len());
    for i in 0..n {
        if a[i] != b[i] {
            return Some(i);
        }
    }
    Some(n)
}

/// Env helper: VERIF_SEED (default 1).
pub fn verif_seed() -> u64 {
    std::env::var("VERIF_SEED").ok().and_then(|s| s.trim().parse::<u64>().ok()).unwrap_or(1)
}

pub fn write_json(path: &std::path::Path, v: &serde_json::Value) -> std::io::Result<()> {
    if let Some(p) = path.parent() {
        std::fs::create_dir_all(p)?;
    }
    let mut s = serde_json::to_string_pretty(v).unwrap();
    s.push('\n');
    std::fs::write(path, s)
}

/// Short excerpt around an offset, lossily decoded, for violation messages.
pub fn excerpt(b: &[u8], at: usize) -> String {
    let lo = at.saturating_sub(40);
    let hi = (at + 40).min(b.len());
    String::from_utf8_lossy(&b[lo..hi]).into_owned()
}
