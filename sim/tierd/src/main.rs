//! tierd — tier D of ENV-SIM (C11, clause "the pdl_derive attribute macros produce code that
//! behaves identically to the command-line tool's output for the same source").
//!
//! This crate is rebuilt by the real rustc, under the libc shim with a chosen hash seed,
//! for every round: for each source `m` it contains
//!   gen::m_<m>                 the text `pdlc --output-format rust` printed (include!)
//!   derive_mods::drva_<m>      #[pdl_inline("...")]      first expansion in this rustc process
//!   derive_mods::drvb_<m>      #[pdl_inline("...")]      second expansion, after other sources
//!   derive_mods::drvf_<m>      #[pdl("<file>")]          file-based front end
//! (the derive modules live in the separate crate `tierd_mods`, rebuilt by cargo only when
//! rustc's dependency information requires it).
//! The BUF-SIM workload (sim.rs) is driven against the CLI module; the very same event list
//! is then executed against each derive module and the per-event behaviour histories
//! (bytes written, Ok/Err values, Debug of decoded values, consumed lengths) are diffed.

#[path = "../../bufsim/src/sim.rs"]
mod sim;
use buflaws::laws;
use tierd_mods as derive_mods;
#[allow(warnings, unused)]
mod gen {
    include!(concat!(env!("TIERD_GEN"), "/registry.rs"));
}

use laws::{Prov, TypeOps};
use serde_json::{json, Value};
use sim::{draw_event, draw_swarm, event_from_json, event_to_json, seeds_for, Event, Sim, World};
use simcore::{hex, stable_hash, unhex, Rng};
use std::path::PathBuf;

const TAG_D: u64 = 0x44;
const VARIANTS: [&str; 3] = ["drva_", "drvb_", "drvf_"];

fn types_of<'a>(w: &'a World, module: &str, names: &[&str]) -> Option<Vec<&'a TypeOps>> {
    names.iter().map(|n| w.reg.iter().find(|o| o.module == module && o.name == *n)).collect()
}

fn history(types: Vec<&TypeOps>, seeds: Vec<Vec<Prov>>, events: &[Event]) -> Vec<String> {
    let mut s = Sim::new(types, seeds);
    s.record = true;
    for (i, e) in events.iter().enumerate() {
        let before = s.history.len();
        if s.step(e, i).is_err() {
            // a law violation is C18's business; here it is just behaviour to compare
            if s.history.len() == before {
                s.history.push("law-violation".into());
            }
            break;
        }
    }
    s.history
}

fn first_mismatch(a: &[String], b: &[String]) -> Option<usize> {
    let n = a.len().max(b.len());
    (0..n).find(|i| a.get(*i) != b.get(*i))
}

fn main() {
    std::panic::set_hook(Box::new(|_| {}));
    laws::RECORD_DEBUG.store(true, std::sync::atomic::Ordering::Relaxed);
    let args: Vec<String> = std::env::args().collect();
    let verif = PathBuf::from(std::env::var("VERIF_DIR").unwrap_or_else(|_| "/verif".into()));
    let w = World::new(gen::registry(), &verif);
    let bases: Vec<&'static str> = w.by_module.keys().copied().filter(|m| !VARIANTS.iter().any(|v| m.starts_with(v))).collect();

    if args.get(1).map(|s| s.as_str()) == Some("replay") {
        let v: Value = serde_json::from_str(&std::fs::read_to_string(&args[2]).expect("replay file")).expect("json");
        let base = v["violation"]["module"].as_str().unwrap_or("");
        let variant = v["violation"]["variant"].as_str().unwrap_or("");
        let names: Vec<&str> = v["types"].as_array().map(|a| a.iter().filter_map(|x| x.as_str()).collect()).unwrap_or_default();
        let (t0, t1) = match (types_of(&w, base, &names), types_of(&w, variant, &names)) {
            (Some(a), Some(b)) => (a, b),
            _ => {
                println!("{}", json!({"reproduced": false, "note": "types not present in the regenerated modules"}));
                return;
            }
        };
        let seeds: Vec<Vec<Prov>> = v["seed_values"]
            .as_array()
            .map(|a| {
                a.iter()
                    .map(|ps| {
                        ps.as_array()
                            .map(|l| {
                                l.iter()
                                    .map(|p| Prov {
                                        bytes: p["decoded_from"].as_str().and_then(unhex),
                                        spoilers: p["spoilers"].as_array().map(|s| s.iter().filter_map(|x| x.as_u64().map(|y| y as usize)).collect()).unwrap_or_default(),
                                    })
                                    .collect()
                            })
                            .unwrap_or_default()
                    })
                    .collect()
            })
            .unwrap_or_default();
        let events: Vec<Event> = v["events"].as_array().map(|a| a.iter().filter_map(|e| event_from_json(e, &t0)).collect()).unwrap_or_default();
        let h0 = history(t0, seeds.clone(), &events);
        let h1 = history(t1, seeds, &events);
        match first_mismatch(&h0, &h1) {
            Some(i) => println!("{}", json!({"reproduced": true, "event": i, "cli": h0.get(i), "derive": h1.get(i)})),
            None => println!("{}", json!({"reproduced": false})),
        }
        return;
    }

    let seed: u64 = args.get(2).and_then(|s| s.parse().ok()).unwrap_or(1);
    let runs: u64 = args.get(3).and_then(|s| s.parse().ok()).unwrap_or(200);
    // optional restriction (edit-and-rebuild phase): --only <variant prefix> --module <base>
    let opt = |name: &str| args.iter().position(|a| a == name).and_then(|i| args.get(i + 1)).cloned();
    let only_variant = opt("--only");
    let only_module = opt("--module");
    let mut total_runs = 0u64;
    let mut total_events = 0u64;
    let mut compared = 0u64;
    let mut distinct: std::collections::BTreeSet<u64> = Default::default();
    let mut violations: Vec<Value> = Vec::new();
    let mut families = Vec::new();
    for base in &bases {
        if let Some(m) = &only_module {
            if m != base {
                continue;
            }
        }
        let all = &w.by_module[base];
        let variants: Vec<String> = VARIANTS.iter().filter(|v| only_variant.as_deref().map(|o| o == **v).unwrap_or(true)).map(|v| format!("{v}{base}")).filter(|m| w.by_module.contains_key(m.as_str())).collect();
        families.push(json!({"module": base, "types": all.len(), "variants": variants}));
        for run in 0..runs {
            let mut rng = Rng::for_run(seed, TAG_D ^ stable_hash(base), run);
            let nt = rng.range(1, 6.min(all.len() as u64)) as usize;
            let mut idx = all.clone();
            rng.shuffle(&mut idx);
            idx.truncate(nt);
            let types: Vec<&TypeOps> = idx.iter().map(|i| &w.reg[*i]).collect();
            let names: Vec<&str> = types.iter().map(|t| t.name).collect();
            let seeds: Vec<Vec<Prov>> = idx.iter().map(|i| seeds_for(&w, *i, &mut rng)).collect();
            let sw = draw_swarm(&mut rng);
            let n_events = rng.range(8, 64) as usize;
            let mut s = Sim::new(types.clone(), seeds.clone());
            s.record = true;
            let mut events = Vec::new();
            for i in 0..n_events {
                let e = draw_event(&mut rng, &s, &sw);
                events.push(e.clone());
                if s.step(&e, i).is_err() {
                    break;
                }
            }
            total_runs += 1;
            total_events += events.len() as u64;
            let h0 = s.history.clone();
            distinct.insert(stable_hash(&(base, &h0)));
            for vm in &variants {
                let vt = match types_of(&w, vm, &names) {
                    Some(t) => t,
                    None => {
                        violations.push(json!({"module": base, "variant": vm, "run": run, "detail": format!("the derive module lacks one of the types {:?} that the CLI output defines", names)}));
                        continue;
                    }
                };
                let h1 = history(vt, seeds.clone(), &events);
                compared += h0.len() as u64;
                if let Some(i) = first_mismatch(&h0, &h1) {
                    if violations.len() < 8 {
                        violations.push(json!({
                            "module": base, "variant": vm, "run": run, "event": i,
                            "detail": format!("behaviour diverges at recorded step {i}: code printed by pdlc gives {:?}, code expanded by the macro gives {:?}", h0.get(i), h1.get(i)),
                            "types": names,
                            "seed_values": seeds.iter().map(|ps| ps.iter().map(|p| json!({"decoded_from": p.bytes.as_ref().map(|b| hex(b)), "spoilers": p.spoilers})).collect::<Vec<_>>()).collect::<Vec<_>>(),
                            "events": events.iter().map(|e| event_to_json(e, &types)).collect::<Vec<_>>(),
                        }));
                    }
                    break;
                }
            }
        }
    }
    println!("{}", json!({"families": families, "runs": total_runs, "events": total_events, "history_steps_compared": compared, "distinct_histories": distinct.len(), "violations": violations}));
}
