//! The derive-macro modules of tier D, in a crate of their own: it is rebuilt by cargo only
//! when rustc's dependency information says so — which is what the "edit only the .pdl file
//! and rebuild" history of tier D observes for `#[pdl("file")]`.
#![allow(warnings, unused)]
include!(concat!(env!("TIERD_GEN"), "/derive_mods.rs"));
