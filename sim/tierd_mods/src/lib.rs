//! The derive-macro modules of tier D, in a crate of their own: it is rebuilt by cargo only
//! when rustc's dependency information says so — which is what the "edit only the .pdl file
//! and rebuild" history of tier D observes for `#[pdl("file")]`.
#![allow(warnings, unused)]
include!(concat!(env!("TIERD_GEN"), "/derive_mods.rs"));

// ---- the host crate's own scope around the derive modules: helpers whose method names look like the ones
// generated code calls on byte slices and buffers. They are private to this scope; generated code that
// sees them (a glob import of the parent scope, a path resolved relative to the call site) reads wrong values.
#[allow(dead_code)]
trait VerifPeek {
    fn get_u8(&self) -> u8 { 1 }
    fn get_u16(&self) -> u16 { 1 }
    fn get_u16_le(&self) -> u16 { 1 }
    fn get_u32(&self) -> u32 { 1 }
    fn get_u32_le(&self) -> u32 { 1 }
    fn get_u64(&self) -> u64 { 1 }
    fn get_u64_le(&self) -> u64 { 1 }
    fn get_uint(&self, _n: usize) -> u64 { 1 }
    fn get_uint_le(&self, _n: usize) -> u64 { 1 }
    fn remaining(&self) -> usize { 1 }
    fn has_remaining(&self) -> bool { true }
}
impl VerifPeek for [u8] {}
#[allow(dead_code)]
trait VerifSink {
    fn put_u8(&self, _v: u8) {}
    fn put_u16(&self, _v: u16) {}
    fn put_u16_le(&self, _v: u16) {}
    fn put_slice(&self, _v: &[u8]) {}
}
impl VerifSink for Vec<u8> {}
#[allow(dead_code)]
type Result<T> = std::result::Result<T, ()>;
#[allow(dead_code)]
struct Private;
#[allow(dead_code)]
const MAX: usize = 0;
