#!/usr/bin/env bash
# tools/confirm_mutants.sh — my own confirmation of sub-agent mutants, in scratch worktrees at the
# paths their demonstrations refer to. For each: (1) patch applies, workspace tests pass with it,
# (2) demo fails with it, (3) demo passes without it. Writes /verif/.build/confirm/<name>.txt
set -u
OUT=/verif/.build/confirm; mkdir -p $OUT
declare -A WT=( [C11a]=/tmp/wt-m1 [C11b]=/tmp/wt-m2 [C11c]=/tmp/wt-m3 [C18a]=/tmp/wt-m4 [C18b]=/tmp/wt-m5 [C18c]=/tmp/wt-m6 [C11d]=/tmp/wt-n11 [C11e]=/tmp/wt-n12 [C11f]=/tmp/wt-n13 [C11g]=/tmp/wt-n14 [C18d]=/tmp/wt-n15 [C18e]=/tmp/wt-n16 [C11h]=/tmp/wt-p21 [C11i]=/tmp/wt-p22 [C11j]=/tmp/wt-p23 [C11k]=/tmp/wt-p24 [C18f]=/tmp/wt-p25 [C18g]=/tmp/wt-p26 [C11l]=/tmp/wt-q31 [C11m]=/tmp/wt-q32 [C11n]=/tmp/wt-q33 [C11o]=/tmp/wt-q34 [C18h]=/tmp/wt-q35 [C18i]=/tmp/wt-q36 [C11p]=/tmp/wt-r41 [C11q]=/tmp/wt-r42 [C11r]=/tmp/wt-r43 [C11s]=/tmp/wt-r44 [C18j]=/tmp/wt-r45 [C18k]=/tmp/wt-r46 [C11t]=/tmp/wt-s51 [C11u]=/tmp/wt-s52 [C11v]=/tmp/wt-s53 [C11w]=/tmp/wt-s54 [C18l]=/tmp/wt-s55 [C18m]=/tmp/wt-s56 [C11x]=/tmp/wt-t61 [C18n]=/tmp/wt-t62 )
declare -A BASE=( [C11a]=7c1ff7b [C11b]=7c1ff7b [C11c]=7c1ff7b [C18a]=7c1ff7b [C18b]=7c1ff7b [C18c]=7c1ff7b [C11d]=345b324 [C11e]=345b324 [C11f]=345b324 [C11g]=345b324 [C18d]=345b324 [C18e]=345b324 [C11h]=7c4ca94 [C11i]=7c4ca94 [C11j]=7c4ca94 [C11k]=7c4ca94 [C18f]=7c4ca94 [C18g]=7c4ca94 [C11l]=072e616 [C11m]=072e616 [C11n]=072e616 [C11o]=072e616 [C18h]=072e616 [C18i]=072e616 [C11p]=072e616 [C11q]=072e616 [C11r]=072e616 [C11s]=072e616 [C18j]=072e616 [C18k]=072e616 [C11t]=072e616 [C11u]=072e616 [C11v]=072e616 [C11w]=072e616 [C18l]=072e616 [C18m]=072e616 [C11x]=072e616 [C18n]=072e616 )
demo_cmd() { # $1 = dir, $2 = worktree
  if [ -f "$1/demo.sh" ]; then (cd "$1" && bash ./demo.sh "$2")
  elif [ -f "$1/run.sh" ]; then (cd "$1" && bash ./run.sh)
  elif [ -x "$1/demo/run.sh" ]; then (cd "$1/demo" && ./run.sh)
  elif [ -f "$1/demo/src/main.rs" ] && [ ! -d "$1/demo/tests" ]; then (cd "$1/demo" && cargo run --offline -q)
  else (cd "$1/demo" && cargo test --offline); fi
}
for g in "$@"; do
  wt=${WT[$g]}
  if [ "${REUSE:-0}" = "1" ] && [ -d $wt ]; then  # keep the session's worktree (and its build output): saves a cold build
    git -C $wt checkout -q -- . ; git -C $wt clean -fdq -e target
  else
  git -C /repo worktree remove --force $wt 2>/dev/null; rm -rf $wt; git -C /repo worktree prune
  git -C /repo worktree add --detach $wt ${BASE[$g]} >/dev/null 2>&1 || { echo "$g: worktree failed"; continue; }
  fi
  for k in 1 2; do
    d=/tmp/out-$g/$k; n=$g-$k; r=$OUT/$n.txt; : > $r
    [ -f $d/patch.diff ] || continue
    git -C $wt checkout -q -- . ; git -C $wt clean -fdq -e target
    if ! git -C $wt apply $d/patch.diff; then echo "$n: patch does not apply" | tee -a $r; continue; fi
    (cd $wt && cargo test --workspace --no-fail-fast --offline 2>&1 | grep -E "^test result" ) > $r.tests 2>&1
    passed=$(awk '{s+=$4} END{print s}' $r.tests); failed=$(awk '{s+=$6} END{print s}' $r.tests)
    echo "$n: with patch: tests passed=$passed failed=$failed" | tee -a $r
    demo_cmd $d $wt > $r.demo_with 2>&1; rc_with=$?
    git -C $wt checkout -q -- . ; git -C $wt clean -fdq -e target
    demo_cmd $d $wt > $r.demo_without 2>&1; rc_without=$?
    echo "$n: demo exit with patch=$rc_with, without patch=$rc_without" | tee -a $r
  done
  git -C /repo worktree remove --force $wt; rm -rf $wt
  find /tmp/out-$g -name target -type d -prune -exec rm -rf {} + 2>/dev/null
done
