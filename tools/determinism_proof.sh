#!/usr/bin/env bash
# tools/determinism_proof.sh [seeds...]   (default: 1 2 3 7 1234567)
# Runs the quick tier of both simulators twice per seed, in separate processes and with
# different worker counts, and diffs the per-run digests (plan = what the simulator chose,
# observation = what the system did). Any difference is a harness defect.
# Result appended to /verif/determinism_proof.log
set -u
cd /verif
SEEDS="${*:-1 2 3 7 1234567}"
OUT=/verif/.build/detproof; mkdir -p $OUT
bin/check setup >/dev/null 2>&1 || { echo "setup failed"; exit 2; }
bin/check-c18 build "" || exit 2
export VERIF_SIM=/verif/sim VERIF_D_ROUNDS=0 VERIF_S_ROUNDS=0 VERIF_SELFCHECK_RUNS=0 VERIF_OUT=$OUT VERIF_BUDGET_S=6000
fail=0
for s in $SEEDS; do
  for cfg in "16 a" "5 b"; do
    set -- $cfg
    VERIF_SEED=$s VERIF_WORKERS=$1 VERIF_DUMP_DIGESTS=$OUT/s$s.$2 .build/sim-target/release/envsim check --tier quick >/dev/null 2>&1
    VERIF_SEED=$s VERIF_WORKERS=$1 VERIF_DUMP_DIGESTS=$OUT/s$s.$2 .build/sim-target/release/bufsim check --tier quick >/dev/null 2>&1
  done
  for t in P L B; do
    # compare the runs both executions completed (a run cut off by the wall-clock budget is not a difference)
    sort -k2,2 $OUT/s$s.a.$t > $OUT/a.sorted; sort -k2,2 $OUT/s$s.b.$t > $OUT/b.sorted
    common=$(join -j 2 $OUT/a.sorted $OUT/b.sorted | wc -l)
    differ=$(join -j 2 $OUT/a.sorted $OUT/b.sorted | awk '{ n=(NF-1)/2; for (i=0;i<n;i++) if ($(2+i) != $(2+n+i)) { print; break } }' | wc -l)
    if [ "$differ" = 0 ] && [ "$common" -gt 0 ]; then echo "$(date -u +%FT%TZ) seed=$s tier=$t runs_compared=$common workers=16-vs-5: identical digests"; else echo "$(date -u +%FT%TZ) seed=$s tier=$t runs_compared=$common: $differ DIFFERENT"; fail=1; fi
  done
done | tee -a /verif/determinism_proof.log
exit $fail
