#!/usr/bin/env python3
"""One-time corpus extraction (results are committed under /verif/corpus).

Copies the repo's own descriptions and pulls the inline descriptions out of the
Rust snapshot tests, the analyzer tests and pdl-tests. Writes corpus/index.json.
Run by hand when the pinned commit changes; checks never run it.
"""
import json, os, re, shutil, sys
REPO = '/repo'
OUT = '/verif/corpus'

def excl(script, pat=r'--exclude-declaration\s+([A-Za-z_0-9]+)'):
    s = open(os.path.join(REPO, 'pdl-compiler/tests', script)).read()
    seen = []
    for m in re.finditer(pat, s):
        if m.group(1) not in seen:
            seen.append(m.group(1))
    return seen

entries = []
def add(id_, text, origin, opts=None, kind='file'):
    path = os.path.join(OUT, 'src', id_ + '.pdl')
    os.makedirs(os.path.dirname(path), exist_ok=True)
    open(path, 'w').write(text)
    entries.append({'id': id_, 'path': 'src/' + id_ + '.pdl', 'origin': origin, 'opts': opts or {}})

le = open(os.path.join(REPO, 'pdl-compiler/tests/canonical/le_test_file.pdl')).read()
# big-endian twin, same transformation as tests/run_*_generator_tests.sh
be_lines, skip = [], False
for line in le.splitlines(keepends=True):
    if 'Start: little_endian_only' in line: skip = True
    if not skip:
        be_lines.append(line.replace('little_endian_packets', 'big_endian_packets'))
    if 'End: little_endian_only' in line: skip = False
be = ''.join(be_lines)
canon_opts = {
    'rust':   {'exclude': excl('run_rust_generator_tests.sh')},
    'python': {'exclude': excl('run_python_generator_tests.sh'), 'custom_field': ['tests.custom_types']},
    'cxx':    {'exclude': excl('run_cxx_generator_tests.sh')},
    'java':   {'exclude': excl('run_java_generator_tests.sh')},
    'json':   {},
}
add('canonical_le', le, 'pdl-compiler/tests/canonical/le_test_file.pdl', canon_opts)
add('canonical_be', be, 'le_test_file.pdl with the sed of run_*_generator_tests.sh', canon_opts)
shutil.copy(os.path.join(REPO, 'pdl-compiler/tests/canonical/le_test_vectors.json'), os.path.join(OUT, 'le_test_vectors.json'))
shutil.copy(os.path.join(REPO, 'pdl-compiler/tests/canonical/be_test_vectors.json'), os.path.join(OUT, 'be_test_vectors.json'))

for ex in sorted(os.listdir(os.path.join(REPO, 'examples'))):
    if ex.endswith('.pdl'):
        add('example_' + ex[:-4], open(os.path.join(REPO, 'examples', ex)).read(), 'examples/' + ex)

# Rust snapshot tests: test_pdl!(name, "code") / r#"code"#
src = open(os.path.join(REPO, 'pdl-compiler/src/backends/rust/mod.rs')).read()
for m in re.finditer(r'test_pdl!\(\s*([a-z0-9_]+)\s*,\s*(r#"(.*?)"#|"((?:[^"\\]|\\.)*)")', src, re.S):
    name = m.group(1)
    code = m.group(3) if m.group(3) is not None else m.group(4).encode().decode('unicode_escape')
    for en in ('little_endian', 'big_endian'):
        add('snap_%s_%s' % (name, en), '%s_packets\n%s' % (en, code), 'backends/rust/mod.rs test_pdl!(%s)' % name)

# analyzer tests: valid!(r#"..."#) and raises!(Code, r#"..."#)
src = open(os.path.join(REPO, 'pdl-compiler/src/analyzer.rs')).read()
n = 0
for m in re.finditer(r'(valid|raises)!\(\s*(?:([A-Za-z0-9_]+)\s*,\s*)?r#"(.*?)"#', src, re.S):
    n += 1
    kind = m.group(1)
    tag = m.group(2) or 'ok'
    add('ana_%03d_%s_%s' % (n, kind, tag), m.group(3), 'analyzer.rs %s!(%s)' % (kind, tag))

# pdl-tests and pdl-derive inline descriptions: #[pdl_inline(r#"..."#)] and files
k = 0
for root, _, files in os.walk(os.path.join(REPO, 'pdl-tests')):
    for f in sorted(files):
        if f.endswith('.rs'):
            s = open(os.path.join(root, f)).read()
            for m in re.finditer(r'pdl_inline\(\s*r#"(.*?)"#', s, re.S):
                k += 1
                add('pdltests_%02d_%s' % (k, f[:-3]), m.group(1), os.path.relpath(os.path.join(root, f), REPO))
for root, _, files in os.walk(os.path.join(REPO, 'pdl-derive')):
    for f in sorted(files):
        if f.endswith('.pdl'):
            add('derive_' + f[:-4], open(os.path.join(root, f)).read(), os.path.relpath(os.path.join(root, f), REPO))

hand_opts = json.load(open(os.path.join(OUT, 'hand', 'opts.json')))
for f in sorted(os.listdir(os.path.join(OUT, 'hand'))):
    if f.endswith('.pdl'):
        add('hand_' + f[:-4], open(os.path.join(OUT, 'hand', f)).read(), 'verif/corpus/hand/' + f, hand_opts.get(f[:-4]))

# seeded random descriptions (tools/gen_random_pdl.py), committed under corpus/gen
for f in sorted(os.listdir(os.path.join(OUT, 'gen'))):
    if f.endswith('.pdl'):
        add(f[:-4], open(os.path.join(OUT, 'gen', f)).read(), 'verif/corpus/gen/' + f + ' (tools/gen_random_pdl.py)')

json.dump({'entries': entries}, open(os.path.join(OUT, 'index.json'), 'w'), indent=1)
print(len(entries), 'entries')
