#!/usr/bin/env python3
"""gen_random_pdl.py <out_dir> <count> [seed]

Writes <count> seeded random PDL descriptions built from the constructs of doc/reference.md
(enums with ranges and defaults, structs, packets, groups with constraints, inheritance with
scalar/enum constraints, size/count/element-size fields, size modifiers, padding, optional
fields, fixed fields, reserved bits, arrays of scalars/enums/structs, sized custom fields,
declaration-order permutation, comments). Descriptions are valid by construction as far as
this generator knows the rules; whether pdlc accepts them is established afterwards
(tools/gen_corpus.py keeps the ones every stage of interest accepts).

The purpose is breadth of construct COMBINATIONS in the corpus of the simulators — each
hand-written entry covers the shapes somebody thought of; these cover shapes nobody did.
"""
import os, random, sys

out_dir, count = sys.argv[1], int(sys.argv[2])
base_seed = int(sys.argv[3]) if len(sys.argv) > 3 else 20260923

SUSPICIOUS = ["chunk", "span", "head", "bytes", "size", "count", "len", "value", "data", "fields", "result", "element", "child", "cond", "offset", "builder", "parent", "id", "tag", "tail", "remaining"]

class Gen:
    def __init__(self, seed):
        self.r = random.Random(seed)
        self.decls = []          # (text)
        self.enums = []          # (name, width, tags)
        self.structs = []        # (name, static_size_bytes or None)
        self.customs = []        # (name, width)
        self.n = 0

    def ident(self, prefix):
        self.n += 1
        return "%s%d" % (prefix, self.n)

    def field_name(self, used):
        r = self.r
        while True:
            f = r.choice("abcdefghklmnpqrstuvwxyz") + (str(r.randrange(10)) if r.random() < 0.5 else "")
            if f not in used and f not in ("payload", "buf", "type", "self", "struct", "enum", "packet", "group", "test", "checksum", "custom_field", "if"):
                used.add(f)
                return f

    def enum(self):
        r = self.r
        name = self.ident("En")
        width = r.choice([3, 4, 5, 7, 8, 8, 12, 16, 24, 32, 64])
        maxv = (1 << width) - 1
        ntags = r.randrange(2, 6)
        vals = sorted(r.sample(range(0, min(maxv, 200) + 1), min(ntags, min(maxv, 200) + 1)))
        tags = []
        body = []
        for i, v in enumerate(vals):
            t = "T%d" % i
            tags.append((t, v))
            body.append("    %s = %s," % (t, hex(v) if r.random() < 0.3 else v))
        if r.random() < 0.3 and vals[-1] + 12 < maxv:
            lo = vals[-1] + 2
            hi = lo + r.randrange(2, 9)
            body.append("    RNG = %d..%d { IN = %d }," % (lo, hi, lo + 1))
        if r.random() < 0.4:
            body.append("    OTHER = ..,")
        self.decls.append("enum %s : %d {\n%s\n}" % (name, width, "\n".join(body)))
        self.enums.append((name, width, tags))
        return name

    def custom(self):
        name = self.ident("Cf")
        width = self.r.choice([8, 16, 24, 32, 40])
        self.decls.append('custom_field %s : %d "%s"' % (name, width, name.lower()))
        self.customs.append((name, width))

    # a run of bit-fields adding up to a whole number of octets
    def bit_run(self, used, lines, allow_enum=True):
        r = self.r
        total = 0
        target = r.choice([8, 8, 16, 16, 24, 32, 40, 64])
        while total < target:
            left = target - total
            kind = r.random()
            if kind < 0.15 and left >= 2:
                w = r.randrange(1, min(left, 7) + 1)
                lines.append("    _reserved_: %d," % w)
            elif kind < 0.25 and left >= 3:
                w = r.randrange(2, min(left, 16) + 1)
                lines.append("    _fixed_ = %d : %d," % (r.randrange(0, 1 << min(w, 10)), w))
            elif kind < 0.45 and allow_enum and self.enums:
                cand = [e for e in self.enums if e[1] <= left]
                if not cand:
                    continue
                e = r.choice(cand)
                if r.random() < 0.2:
                    lines.append("    _fixed_ = %s : %s," % (r.choice(e[2])[0], e[0]))
                else:
                    lines.append("    %s: %s," % (self.field_name(used), e[0]))
                w = e[1]
            else:
                w = r.choice([x for x in (1, 2, 3, 4, 5, 7, 8, 12, 16, 24, 32, 48, 64) if x <= left])
                lines.append("    %s: %d," % (self.field_name(used), w))
            total += w
        return target // 8

    def struct(self, sized=True):
        r = self.r
        name = self.ident("St")
        used = set()
        lines = []
        size = 0
        for _ in range(r.randrange(1, 3)):
            size += self.bit_run(used, lines)
        static = True
        if not sized or r.random() < 0.35:
            # a dynamic tail
            f = self.field_name(used)
            w = r.choice([8, 8, 16])
            if r.random() < 0.5:
                lines.append("    _size_(%s): %d," % (f, w))
            else:
                lines.append("    _count_(%s): %d," % (f, w))
            lines.append("    %s: %s[]," % (f, r.choice(["8", "16", "24"])))
            static = False
        self.decls.append("struct %s {\n%s\n}" % (name, "\n".join(lines)))
        self.structs.append((name, size if static else None))
        return name

    def array_field(self, used, lines, last):
        r = self.r
        f = self.field_name(used)
        kinds = ["scalar"]
        if self.enums: kinds.append("enum")
        if self.structs: kinds += ["struct", "struct"]
        if self.customs: kinds.append("custom")
        k = r.choice(kinds)
        if k == "scalar":
            elem, esize = r.choice([("8", 1), ("16", 2), ("24", 3), ("32", 4), ("64", 8)])
        elif k == "enum":
            cand = [e for e in self.enums if e[1] % 8 == 0]
            if not cand:
                elem, esize = "8", 1
            else:
                e = r.choice(cand); elem, esize = e[0], e[1] // 8
        elif k == "custom":
            c = r.choice(self.customs); elem, esize = c[0], c[1] // 8
        else:
            s = r.choice(self.structs); elem, esize = s[0], s[1]
        mode = r.random()
        w = r.choice([4, 8, 8, 16])
        pad = ""
        if mode < 0.2:
            lines.append("    %s: %s[%d]," % (f, elem, r.randrange(1, 5)))
        elif mode < 0.5:
            lines.append("    _size_(%s): %d," % (f, w))
            if w == 4: lines.append("    _reserved_: 4,")
            mod = "+%d" % r.randrange(1, 4) if r.random() < 0.15 else ""
            lines.append("    %s: %s[%s]," % (f, elem, mod))
        elif mode < 0.8:
            lines.append("    _count_(%s): %d," % (f, w))
            if w == 4: lines.append("    _reserved_: 4,")
            lines.append("    %s: %s[]," % (f, elem))
        elif last:
            lines.append("    %s: %s[]," % (f, elem))
        else:
            lines.append("    %s: %s[%d]," % (f, elem, r.randrange(1, 4)))
            return
        if r.random() < 0.15 and mode >= 0.2:
            lines.append("    _padding_[%d]," % r.choice([8, 16, 32, 64]))

    def optional_fields(self, used, lines):
        r = self.r
        n = r.randrange(1, 4)
        flags = [self.field_name(used) for _ in range(r.randrange(1, n + 1))]
        for fl in flags:
            lines.append("    %s: 1," % fl)
        lines.append("    _reserved_: %d," % (8 - len(flags)))
        for _ in range(n):
            fl = r.choice(flags)
            f = self.field_name(used)
            k = r.random()
            if k < 0.4:
                ty = r.choice(["8", "16", "24", "32"])
            elif k < 0.7 and [e for e in self.enums if e[1] % 8 == 0]:
                ty = r.choice([e for e in self.enums if e[1] % 8 == 0])[0]
            elif self.structs:
                ty = r.choice(self.structs)[0]
            else:
                ty = "8"
            lines.append("    %s: %s if %s = %d," % (f, ty, fl, r.randrange(0, 2)))

    def packet_family(self):
        r = self.r
        root = self.ident("Pk")
        used = set()
        lines = []
        disc = []   # (field, kind, enum)
        # discriminant fields, byte aligned
        for _ in range(r.randrange(1, 3)):
            f = self.field_name(used)
            cand = [e for e in self.enums if e[1] == 8]
            if cand and r.random() < 0.5:
                e = r.choice(cand)
                lines.append("    %s: %s," % (f, e[0]))
                disc.append((f, "enum", e))
            else:
                lines.append("    %s: 8," % f)
                disc.append((f, "int", None))
        if r.random() < 0.5:
            self.bit_run(used, lines)
        style = r.random()
        if style < 0.45:
            lines.append("    _size_(_payload_): %d," % r.choice([8, 16]))
            lines.append("    _payload_,")
        elif style < 0.65:
            lines.append("    _payload_,")
        elif style < 0.8:
            lines.append("    _size_(_body_): 8,")
            lines.append("    _body_,")
        else:
            lines.append("    _payload_: [+%d]," % r.randrange(1, 3)) if False else lines.append("    _payload_,")
        if r.random() < 0.3 and style < 0.45:
            lines.append("    %s: %d," % (self.field_name(used), r.choice([8, 16])))
        self.decls.append("packet %s {\n%s\n}" % (root, "\n".join(lines)))
        # children
        taken = set()
        for ci in range(r.randrange(1, 5)):
            f, kind, e = r.choice(disc)
            if kind == "enum":
                t = r.choice(e[2])[0]
                key = (f, t)
                cons = "%s = %s" % (f, t)
            else:
                v = r.randrange(0, 200)
                key = (f, v)
                cons = "%s = %d" % (f, v)
            if key in taken:
                continue
            taken.add(key)
            child = self.ident("Ch")
            cused = set(used)
            cl = []
            k = r.random()
            if k < 0.5:
                self.bit_run(cused, cl)
            if 0.3 < k < 0.8:
                self.array_field(cused, cl, last=True)
            elif k >= 0.8 and self.structs:
                cl.append("    %s: %s," % (self.field_name(cused), r.choice(self.structs)[0]))
            grand = r.random() < 0.25
            if grand:
                # a declaration that has children keeps to scalar and enum fields (the Rust backend
                # emits conversions that move the parent's fields out of a shared reference)
                cl = []
                cused = set(used)
                self.bit_run(cused, cl)
                g8 = self.field_name(cused)
                cl.insert(0, "    %s: 8," % g8)
                cl.append("    _payload_,")
            self.decls.append("packet %s : %s (%s) {\n%s\n}" % (child, root, cons, "\n".join(cl)))
            if grand:
                for gi in range(r.randrange(1, 3)):
                    gc = self.ident("Gc")
                    gl = []
                    self.bit_run(set(cused), gl)
                    self.decls.append("packet %s : %s (%s = %d) {\n%s\n}" % (gc, child, g8, gi + 1, "\n".join(gl)))

    def plain_packet(self):
        r = self.r
        name = self.ident("Pl")
        used = set()
        lines = []
        parts = r.randrange(1, 4)
        for i in range(parts):
            k = r.random()
            if k < 0.4:
                self.bit_run(used, lines)
            elif k < 0.7:
                self.array_field(used, lines, last=(i == parts - 1))
            elif k < 0.85:
                self.optional_fields(used, lines)
            elif self.structs:
                lines.append("    %s: %s," % (self.field_name(used), r.choice(self.structs)[0]))
            elif self.customs:
                lines.append("    %s: %s," % (self.field_name(used), r.choice(self.customs)[0]))
        if not lines:
            self.bit_run(used, lines)
        self.decls.append("packet %s {\n%s\n}" % (name, "\n".join(lines)))

    def group_user(self):
        r = self.r
        g = self.ident("Gr")
        used = set()
        f1, f2 = self.field_name(used), self.field_name(used)
        self.decls.append("group %s {\n    %s: 8,\n    %s: 16,\n}" % (g, f1, f2))
        for _ in range(r.randrange(1, 3)):
            p = self.ident("Gu")
            u2 = set(used)
            lines = []
            if r.random() < 0.5:
                lines.append("    %s { %s = %d }," % (g, f1, r.randrange(0, 256)))
            else:
                lines.append("    %s," % g)
            self.bit_run(u2, lines)
            self.decls.append("packet %s {\n%s\n}" % (p, "\n".join(lines)))

    def build(self):
        r = self.r
        for _ in range(r.randrange(2, 5)): self.enum()
        if r.random() < 0.5: self.custom()
        for _ in range(r.randrange(1, 4)): self.struct(sized=True)
        if r.random() < 0.5: self.struct(sized=False)
        for _ in range(r.randrange(1, 3)): self.packet_family()
        for _ in range(r.randrange(2, 5)): self.plain_packet()
        if r.random() < 0.6: self.group_user()
        decls = list(self.decls)
        if r.random() < 0.5:
            r.shuffle(decls)      # forward references are legal
        out = ["// generated by tools/gen_random_pdl.py", r.choice(["little_endian_packets", "big_endian_packets"]), ""]
        for d in decls:
            if r.random() < 0.2:
                out.append("/// doc comment of the next declaration")
            out.append(d)
            out.append("")
        return "\n".join(out)

os.makedirs(out_dir, exist_ok=True)
for i in range(count):
    text = Gen(base_seed * 1000 + i).build()
    open(os.path.join(out_dir, "gen_%03d.pdl" % i), "w").write(text)
print("wrote", count)
