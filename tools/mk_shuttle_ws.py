#!/usr/bin/env python3
"""mk_shuttle_ws.py <repo> <sim_dir> <build_dir> <pdlc>

Builds $BUILD/shuttle-ws: a scratch copy of pdl-compiler and pdl-runtime in which every use of
std's synchronisation and thread API is textually replaced by shuttle's (std::sync -> shuttle::sync,
std::thread -> shuttle::thread, thread_local! -> shuttle::thread_local!), plus the `shutsim` harness.
That is the seam of tier S: whatever lock, atomic, Once, condvar, channel or thread-local the code
under test uses (today: none) becomes a scheduling point owned by shuttle's seeded scheduler.
Files are only rewritten when their content changes, so cargo rebuilds incrementally.
/repo itself is never touched."""
import os, re, shutil, subprocess, sys

repo, sim, build, pdlc = sys.argv[1:5]
ws = os.path.join(build, 'shuttle-ws')

def write_if_changed(path, text):
    os.makedirs(os.path.dirname(path), exist_ok=True)
    try:
        if open(path).read() == text:
            return
    except OSError:
        pass
    open(path, 'w').write(text)

def rewrite_use_groups(src):
    # `use std::{a::B, sync::Mutex, thread};` -> items under sync/thread moved to shuttle
    def repl(m):
        body = m.group(1)
        items, depth, cur = [], 0, ''
        for ch in body:
            if ch == '{': depth += 1
            if ch == '}': depth -= 1
            if ch == ',' and depth == 0:
                items.append(cur.strip()); cur = ''
            else:
                cur += ch
        if cur.strip(): items.append(cur.strip())
        keep = [i for i in items if not re.match(r'(sync|thread)\b', i)]
        move = [i for i in items if re.match(r'(sync|thread)\b', i)]
        out = ''
        if keep: out += 'use std::{' + ', '.join(keep) + '};'
        for i in move: out += '\nuse shuttle::' + i + ';'
        return out
    return re.sub(r'use\s+std::\{((?:[^{};]|\{[^{}]*\})*)\};', repl, src)

SYNC_TYPES = re.compile(r'\b(RwLock|Mutex|Condvar|Barrier|Once|Atomic[A-Z]\w*|mpsc)\b')
STATIC_ITEM = re.compile(r'^(?P<indent>[ \t]*)(?P<vis>pub(?:\([^)]*\))?\s+)?static\s+(?P<name>[A-Z_][A-Z0-9_]*)\s*:\s*(?P<ty>[^=;]+?)\s*=\s*(?P<init>[^;]*);[ \t]*$', re.M)

def rewrite_statics(src):
    # shuttle's primitives have no const constructors: `static X: Mutex<T> = Mutex::new(..);`
    # becomes a lazily initialised static with the same name and type (uses go through Deref)
    def repl(m):
        if not SYNC_TYPES.search(m.group('ty')):
            return m.group(0)
        return '%sshuttle::lazy_static! { %sstatic ref %s: %s = %s; }' % (m.group('indent'), m.group('vis') or '', m.group('name'), m.group('ty'), m.group('init'))
    return STATIC_ITEM.sub(repl, src)

def rewrite(src):
    src = rewrite_use_groups(src)
    src = rewrite_statics(src)
    src = re.sub(r'\b(?:std|core)::sync\b', 'shuttle::sync', src)
    src = re.sub(r'\bstd::thread\b(?!_)', 'shuttle::thread', src)
    src = re.sub(r'\bstd::thread_local!', 'shuttle::thread_local!', src)
    src = re.sub(r'(?<![:\w])thread_local!', 'shuttle::thread_local!', src)
    return src

def copy_crate(name, extra_dep=True):
    srcdir = os.path.join(repo, name)
    dst = os.path.join(ws, name)
    seen = set()
    for root, dirs, files in os.walk(os.path.join(srcdir, 'src')):
        for f in files:
            p = os.path.join(root, f)
            rel = os.path.relpath(p, srcdir)
            seen.add(rel)
            if f.endswith('.rs'):
                write_if_changed(os.path.join(dst, rel), rewrite(open(p).read()))
            else:
                write_if_changed(os.path.join(dst, rel), open(p).read())
    # remove files that disappeared
    for root, dirs, files in os.walk(os.path.join(dst, 'src')):
        for f in files:
            rel = os.path.relpath(os.path.join(root, f), dst)
            if rel not in seen:
                os.remove(os.path.join(root, f))
    man = open(os.path.join(srcdir, 'Cargo.toml')).read()
    man = re.sub(r'readme = "[^"]*"\n', '', man)
    man = man.replace('[dependencies]\n', '[dependencies]\nshuttle = "0.9"\n', 1)
    write_if_changed(os.path.join(dst, 'Cargo.toml'), man)

copy_crate('pdl-compiler')
copy_crate('pdl-runtime')

# the harness
hs = os.path.join(sim, 'shutsim')
for root, dirs, files in os.walk(os.path.join(hs, 'src')):
    for f in files:
        p = os.path.join(root, f)
        write_if_changed(os.path.join(ws, 'shutsim', os.path.relpath(p, hs)), open(p).read())
# shared sources of the simulators, compiled here against the rewritten pdl-runtime
for src_rel, dst_name in (('envsim/src/corpus.rs', 'corpus.rs'), ('buflaws/src/laws.rs', 'laws.rs'), ('buflaws/src/simbuf.rs', 'simbuf.rs'), ('bufsim/src/sim.rs', 'sim.rs')):
    text = open(os.path.join(sim, src_rel)).read().replace('use buflaws::', 'use crate::buflaws::')
    write_if_changed(os.path.join(ws, 'shutsim', 'src', dst_name), text)
write_if_changed(os.path.join(ws, 'shutsim', 'Cargo.toml'), '''[package]
name = "shutsim"
version = "0.0.0"
edition = "2021"
publish = false

[features]
serde = []

[dependencies]
shuttle = "0.9"
serde_json = "1"
bytes = "1"
thiserror = "1"
codespan-reporting = "0.13.1"
simcore = { path = "%s/simcore" }
pdl-compiler = { path = "../pdl-compiler", features = ["java"] }
pdl-runtime = { path = "../pdl-runtime" }
''' % sim)
write_if_changed(os.path.join(ws, 'Cargo.toml'), '''[workspace]
resolver = "2"
members = ["shutsim"]

[profile.release]
opt-level = 1
debug = false
overflow-checks = true
debug-assertions = true
codegen-units = 16
''')
write_if_changed(os.path.join(ws, '.cargo', 'config.toml'), '[net]\noffline = true\n')
if not os.path.exists(os.path.join(ws, 'Cargo.lock')):
    shutil.copy(os.path.join(sim, 'Cargo.lock'), os.path.join(ws, 'Cargo.lock'))

# generated code for the runtime scenario (compiled against the rewritten pdl-runtime)
gen = os.path.join(ws, 'gen')
os.makedirs(gen, exist_ok=True)
verif = os.environ.get('VERIF_DIR') or os.path.dirname(sim)
mods = []
for entry in ('hand_temporaries', 'snap_struct_decl_child_structs_little_endian', 'pdltests_02_semantic'):
    path = os.path.join(verif, 'corpus', 'src', entry + '.pdl')
    r = subprocess.run([pdlc, '--output-format', 'rust', path], capture_output=True)
    if r.returncode == 0 and r.stdout:
        write_if_changed(os.path.join(gen, entry + '.rs'), r.stdout.decode())
        mods.append(entry)
bufgen = os.path.join(build, 'sim-target', 'release', 'bufgen')
tmp = os.path.join(ws, 'gen.tmp')
shutil.rmtree(tmp, ignore_errors=True)
shutil.copytree(gen, tmp)
subprocess.run([bufgen, tmp] + mods, check=True, capture_output=True)
write_if_changed(os.path.join(gen, 'registry.rs'), open(os.path.join(tmp, 'registry.rs')).read().replace('buflaws::laws::', 'crate::buflaws::laws::'))
shutil.rmtree(tmp, ignore_errors=True)
print(ws)
