#!/usr/bin/env python3
"""Copy a confirmed seeded change into /verif/seeded/<id>/ (patch.diff, demonstration, meta.json).
usage: record_seeded.py <id> <src_dir> <confirm_txt> <detected_by> <check_log>"""
import json, os, shutil, sys
sid, src, confirm, detected, checklog = sys.argv[1:6]
dst = os.path.join('/verif/seeded', sid)
if os.path.exists(dst):
    shutil.rmtree(dst)
os.makedirs(dst)
def ignore(d, names):
    return [n for n in names if n in ('target', 'Cargo.lock', '.git', 'work', 'out') or n.endswith('.so') or os.path.islink(os.path.join(d, n))]
for n in os.listdir(src):
    p = os.path.join(src, n)
    if n in ('meta.json',):
        continue
    if n in ('work', 'out', 'target') or os.path.islink(p):
        continue
    if os.path.isdir(p):
        shutil.copytree(p, os.path.join(dst, n), ignore=ignore, symlinks=True)
    elif os.path.getsize(p) < 2_000_000:
        shutil.copy(p, os.path.join(dst, n))
meta = json.load(open(os.path.join(src, 'meta.json'))) if os.path.exists(os.path.join(src, 'meta.json')) else {}
lines = [l.strip() for l in open(confirm)] if os.path.exists(confirm) else []
viol = []
if os.path.exists(checklog):
    for l in open(checklog):
        if l[:4] in ('  P ', '  L ', '  D ', '  B ', '  S '):
            viol.append(l.strip()[:400])
        if l.startswith('C11:') or l.startswith('C18:'):
            summary = l.strip()
meta_out = {
    'id': sid,
    'property': meta.get('property', sid[:3]),
    'origin': 'independent sub-agent given only the property text and a scratch worktree' if not sid.startswith('own') else 'written by me as a sensitivity probe',
    'summary': meta.get('summary'),
    'needs_to_manifest': meta.get('needs_to_manifest'),
    'files_changed': meta.get('files_changed'),
    'how_demonstrated': meta.get('how_demonstrated'),
    'confirmed_by_me': lines,
    'what_i_ran': [
        'scratch worktree of /repo at the pinned commit; git apply patch.diff; cargo test --workspace --no-fail-fast --offline (203 must pass)',
        'demonstration with the patch (must fail) and after git checkout (must pass) — tools/confirm_mutants.sh',
        'tools/try_mutant.sh: bin/check <property> --tier quick against a scratch worktree with the patch applied',
    ],
    'detected_by': detected,
    'first_violations_reported': viol[:4],
}
json.dump(meta_out, open(os.path.join(dst, 'meta.json'), 'w'), indent=1)
print('recorded', dst)
