#!/usr/bin/env python3
"""Print the markdown table of DESIGN.md §10 from seeded/*/meta.json."""
import json, os
rows = []
for d in sorted(os.listdir('/verif/seeded')):
    p = os.path.join('/verif/seeded', d, 'meta.json')
    if not os.path.exists(p):
        continue
    m = json.load(open(p))
    summ = (m.get('summary') or '').replace('|', '/').replace('\n', ' ')
    if len(summ) > 230:
        summ = summ[:227] + '…'
    need = (m.get('needs_to_manifest') or '').replace('|', '/').replace('\n', ' ')
    if len(need) > 200:
        need = need[:197] + '…'
    rows.append('| %s | %s | %s | %s | %s |' % (m['id'], m['property'], summ, need, (m.get('detected_by') or '').replace('|', '/')))
print('| id | prop. | change | needs | result of the quick check |')
print('|---|---|---|---|---|')
print('\n'.join(rows))
