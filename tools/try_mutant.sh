#!/usr/bin/env bash
# tools/try_mutant.sh <name> <patch.diff> <C11|C18> [extra env assignments...]
# Runs a check against a scratch worktree of /repo with the patch applied (never touches /repo).
# Everything lives under /tmp/mt-<name>* and is removed afterwards unless KEEP=1.
set -u
NAME="$1"; PATCH="$2"; PROP="$3"; shift 3
WT=/tmp/mt-$NAME
rm -rf "$WT" "$WT-sim" "$WT-build" "$WT-out"
git -C /repo worktree prune
git -C /repo worktree add --detach "$WT" HEAD >/dev/null 2>&1 || { echo "worktree failed"; exit 2; }
if [ "$PATCH" != "-" ]; then git -C "$WT" apply "$PATCH" || { echo "patch does not apply"; exit 2; }; fi
cp -r /verif/sim "$WT-sim"
find "$WT-sim" -name Cargo.toml -exec sed -i "s#/repo/#$WT/#g" {} +
sed -i "s#/verif/.build/sim-target#$WT-build/sim-target#" "$WT-sim/.cargo/config.toml"
mkdir -p "$WT-out"
env VERIF_REPO="$WT" VERIF_SIM="$WT-sim" VERIF_BUILD="$WT-build" VERIF_OUT="$WT-out" "$@" /verif/bin/check "$PROP" --tier "${TIER:-quick}" > "$WT-out/log.txt" 2>&1
RC=$?
echo "== $NAME ($PROP): exit $RC"
grep -E "^(C1[18]:|VIOLATION|KNOWN|  [PLDB] |check: )" "$WT-out/log.txt" | head -${LINES_SHOWN:-8}
mkdir -p /verif/.build/mutant-results
cp "$WT-out/log.txt" "/verif/.build/mutant-results/$NAME.$PROP.log"
ls "$WT-out/replays" 2>/dev/null | head -3
if [ "${KEEP:-0}" != "1" ]; then
  git -C /repo worktree remove --force "$WT"; rm -rf "$WT-sim" "$WT-build" "$WT-out"
fi
exit $RC
